#!/usr/bin/env python3
"""Confirm a sub-agent's seeded change in a scratch worktree (never in /repo):
  1. patch + demo: the whole repository suite (the BASELINE command) - every stable test must
     still pass, and the demo test binary must FAIL;
  2. demo alone on the pristine worktree: must PASS.
Usage: tools_seed_confirm.py <worktree> <out-dir> <id> <crate> [--features F]
Writes /verif/seeded/<id>/{patch.diff,demo.rs,README.md,confirm.json}."""
import argparse, json, os, re, shutil, subprocess, sys, time

ap = argparse.ArgumentParser()
ap.add_argument("worktree"); ap.add_argument("out"); ap.add_argument("id"); ap.add_argument("crate")
ap.add_argument("--features", default="")
a = ap.parse_args()
wt = a.worktree
env = dict(os.environ, RUSTUP_TOOLCHAIN="1.88.0", CARGO_NET_OFFLINE="true")
base = json.load(open("/root/.vp/BASELINE.json"))
stable = set(base["stable_pass"])


def sh(cmd, **kw):
    return subprocess.run(cmd, shell=True, cwd=wt, env=env, stdout=subprocess.PIPE, stderr=subprocess.STDOUT, **kw).stdout.decode("utf-8", "replace")


def parse(log):
    passed, failed = set(), set()
    for m in re.finditer(r'^\s+(PASS|FAIL)\s+\[[^\]]*\]\s+(?:\(\s*\d+/\d+\)\s+)?(\S+?)(?:::(\S+))?\s+(\S+)\s*$', log, re.M):
        st, crate, binary, test = m.groups()
        name = crate + ('::' + binary if binary else '') + '::' + test
        (passed if st == 'PASS' else failed).add(name)
    return passed, failed


demo_rel = "crates/%s/tests/seeded_demo.rs" % a.crate
sh("git checkout -- . && git clean -fdq crates")
assert sh("git status --short").strip() == "", "worktree not clean"
r = subprocess.run(["git", "-C", wt, "apply", os.path.join(a.out, "patch.diff")])
assert r.returncode == 0, "patch does not apply"
changed = sh("git diff --stat").strip().splitlines()
assert all("/tests/" not in l for l in changed[:-1]), "patch touches tests"
os.makedirs(os.path.dirname(os.path.join(wt, demo_rel)), exist_ok=True)
shutil.copy(os.path.join(a.out, "demo.rs"), os.path.join(wt, demo_rel))
t0 = time.time()
log = sh("cargo nextest run --workspace --no-fail-fast --test-threads 8 --offline")
passed, failed = parse(log)
missing = sorted(stable - passed)
demo_failed = sorted(n for n in failed if "seeded_demo" in n)
demo_passed_with_patch = sorted(n for n in passed if "seeded_demo" in n)
other_failed = sorted(n for n in failed if "seeded_demo" not in n)
t1 = time.time()
# pristine + demo
subprocess.run(["git", "-C", wt, "apply", "-R", os.path.join(a.out, "patch.diff")], check=True)
feat = ("--features " + a.features) if a.features else ""
log2 = sh("cargo nextest run -p %s %s --test seeded_demo --no-fail-fast --offline" % (a.crate, feat))
p2, f2 = parse(log2)
os.remove(os.path.join(wt, demo_rel))
res = {
    "id": a.id, "worktree": wt, "repo_head": sh("git rev-parse HEAD").strip(),
    "with_patch": {"command": "cargo nextest run --workspace --no-fail-fast --test-threads 8 --offline (RUSTUP_TOOLCHAIN=1.88.0)",
                   "stable_tests": len(stable), "stable_not_passing": missing, "passed": len(passed),
                   "failed_other_than_demo": other_failed, "demo_failed": demo_failed, "demo_passed": demo_passed_with_patch,
                   "seconds": round(t1 - t0)},
    "pristine": {"command": "cargo nextest run -p %s %s --test seeded_demo" % (a.crate, feat), "demo_passed": sorted(p2), "demo_failed": sorted(f2)},
}
res["confirmed"] = bool(not missing and demo_failed and p2 and not f2)
dst = "/verif/seeded/%s" % a.id
os.makedirs(dst, exist_ok=True)
for f in ("patch.diff", "demo.rs", "README.md"):
    shutil.copy(os.path.join(a.out, f), os.path.join(dst, f))
json.dump(res, open(os.path.join(dst, "confirm.json"), "w"), indent=1)
if not res["confirmed"]:
    open(os.path.join(dst, "confirm_fail.log"), "w").write(log[-20000:] + "\n=====\n" + log2[-20000:])
print(json.dumps({k: res[k] for k in ("id", "confirmed")}), "missing=%d demo_failed=%d pristine_pass=%d pristine_fail=%d other_failed=%s (%ds)"
      % (len(missing), len(demo_failed), len(p2), len(f2), other_failed, t1 - t0))
sys.exit(0 if res["confirmed"] else 1)
