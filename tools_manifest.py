#!/usr/bin/env python3
"""Regenerates MANIFEST.json from the table below (single source of truth for check registration)."""
import json, os

BASELINE_OFF = ("cd /repo && RUSTUP_TOOLCHAIN=1.88.0 cargo nextest run --workspace --no-fail-fast --test-threads 8 --offline "
                "|| (cd /repo && RUSTUP_TOOLCHAIN=1.88.0 cargo test --workspace --no-fail-fast --offline)")

# id -> (technique, level text, level note, design ref)
CHECKS = {}
NOT_YET = {}

def load():
    here = os.path.dirname(os.path.abspath(__file__))
    with open(os.path.join(here, "manifest_table.json")) as f:
        return json.load(f)

def main():
    here = os.path.dirname(os.path.abspath(__file__))
    tab = load()
    props = [json.loads(l)["id"] for l in open(os.path.join(here, "properties.jsonl"))]
    checks = []
    na = []
    for pid in props:
        e = tab.get(pid)
        if e and e.get("claimed"):
            checks.append({
                "property_id": pid,
                "quick_cmd": "./check %s --tier quick" % pid,
                "thorough_cmd": "./check %s --tier thorough" % pid,
                "evidence_file": "/verif/evidence/%s.json" % pid,
                "replay_cmd_template": "./check %s --replay {path}" % pid,
                "engine": "probe+monitors",
                "level_claimed": {"category": "exploration", "text": e["level_text"],
                                  "design_ref": "DESIGN.md section 3, %s" % pid},
                "level_note": e["level_note"],
                "technique": e["technique"],
            })
        else:
            na.append({"property_id": pid, "reason": (e or {}).get(
                "reason", "monitor not built yet in this session; see DESIGN.md section 3 for the planned runtime monitor")})
    m = {
        "version": 1,
        "setup_cmd": "./setup.sh",
        "hooks": {
            "guard": "ruma_verif",
            "enable": "none needed: every observation point is a public function or a caller-supplied closure; checks build /repo's crates as path dependencies of /verif/probe (RUSTFLAGS unchanged). The cfg name ruma_verif is reserved.",
            "baseline_off_cmd": BASELINE_OFF,
            "source_commits": [],
            "add_only": True,
        },
        "engines": [
            {"name": "probe+monitors", "path": "/verif/probe, /verif/vt",
             "serves_properties": [c["property_id"] for c in checks],
             "kind_free_text": "supervised Rust worker exposing ruma's public entry points over JSON lines; Python monitors with independent reference models / metamorphic oracles judge every recorded call/return event; the same workload is re-run on debug-assertion, AddressSanitizer and Miri builds where that adds something"},
        ],
        "checks": checks,
        "not_applicable": na,
        "notes": "All verdicts are 'held on the executions observed' (see evidence files) or 'violated with replayable witness'. Known findings: /verif/known_findings.json.",
    }
    with open(os.path.join(here, "MANIFEST.json"), "w") as f:
        json.dump(m, f, indent=1)
    print("wrote MANIFEST.json: %d claimed, %d not claimed" % (len(checks), len(na)))

if __name__ == "__main__":
    main()
