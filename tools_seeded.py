#!/usr/bin/env python3
"""Run checks against a seeded change kept under /verif/seeded/<id>/ (patch.diff):
   ./tools_seeded.py <seeded-id>|--all [PROP ...]      (default: the property named in meta.json)
applies the patch to /repo's working tree (git apply), runs the quick tier of the checks, undoes it
(git checkout -- .) and appends the outcome to seeded/<id>/runs.jsonl."""
import json, os, subprocess, sys, time
HERE = os.path.dirname(os.path.abspath(__file__))
REPO = "/repo"

def sh(cmd):
    return subprocess.run(cmd, shell=True, stdout=subprocess.PIPE, stderr=subprocess.STDOUT)

def main():
    if sys.argv[1] == "--all":
        rc = 0
        for sid in sorted(os.listdir(os.path.join(HERE, "seeded"))):
            if os.path.exists(os.path.join(HERE, "seeded", sid, "meta.json")):
                r = subprocess.run([sys.argv[0], sid] + sys.argv[2:])
                rc = rc or r.returncode
        sys.exit(rc)
    sid = sys.argv[1]
    d = os.path.join(HERE, "seeded", sid)
    meta = json.load(open(os.path.join(d, "meta.json")))
    props = sys.argv[2:] or [meta["property"]]
    if sh("git -C %s status --porcelain --untracked-files=no" % REPO).stdout.decode().strip():
        print("refusing: /repo has uncommitted changes"); sys.exit(3)
    p = sh("git -C %s apply %s" % (REPO, os.path.join(d, "patch.diff")))
    if p.returncode:
        print("patch does not apply:", p.stdout.decode()[-500:]); sys.exit(3)
    out = {}
    try:
        for prop in props:
            t0 = time.time()
            r = sh("cd %s && VERIF_EVIDENCE_DIR=%s/work/evidence-scratch VERIF_SEED=%s ./check %s --tier %s" % (HERE, HERE, os.environ.get("VERIF_SEED", "1"), prop, os.environ.get("VERIF_TIER", "quick")))
            txt = r.stdout.decode("utf-8", "replace")
            fired = r.returncode == 1 and ("VIOLATION property=%s" % prop) in txt
            first = [l for l in txt.splitlines() if l.startswith("  #")][:1]
            out[prop] = {"fired": fired, "exit": r.returncode, "s": round(time.time() - t0, 1), "first": first[0][:300] if first else txt[-300:]}
    finally:
        sh("git -C %s checkout -- ." % REPO)
    print(sid, json.dumps(out))
    with open(os.path.join(d, "runs.jsonl"), "a") as f:
        f.write(json.dumps({"time": time.strftime("%F %T"), "results": out}) + "\n")

if __name__ == "__main__":
    main()
