#!/usr/bin/env python3
"""Validate MANIFEST.json and evidence files against the schemas (needs python3-vt for jsonschema)."""
import json, sys, glob
import jsonschema
ms = json.load(open('/root/.vp/MANIFEST.schema.json')); es = json.load(open('/root/.vp/EVIDENCE.schema.json'))
m = json.load(open('/verif/MANIFEST.json')); jsonschema.validate(m, ms); print("MANIFEST ok,", len(m['checks']), "checks")
for f in sorted(glob.glob('/verif/evidence/*.json')):
    try:
        jsonschema.validate(json.load(open(f)), es); print(f, "ok")
    except Exception as e:
        print(f, "INVALID", str(e)[:300])
