#!/usr/bin/env python3
"""Markdown table of the seeded changes: what each needs, which check caught it in which run."""
import json, os
HERE = os.path.dirname(os.path.abspath(__file__))
tab = json.load(open(os.path.join(HERE, "seeded", "table.json")))
print("| id | needs to manifest | first run of its property's quick check | now | strengthening |")
print("|----|----|----|----|----|")
for sid in sorted(tab):
    d = os.path.join(HERE, "seeded", sid)
    prop, change, needs = tab[sid][:3]
    note = tab[sid][3] if len(tab[sid]) > 3 else ""
    runs = [json.loads(l) for l in open(os.path.join(d, "runs.jsonl"))] if os.path.exists(os.path.join(d, "runs.jsonl")) else []
    own = [r["results"][prop] for r in runs if prop in r["results"]]
    others = sorted({p for r in runs for p, v in r["results"].items() if p != prop and v["fired"]})
    first = ("fired" if own[0]["fired"] else "missed") if own else "-"
    if note.startswith("extended after reading"):
        first = "missed by construction (extended before the first run)"
    last = ("fired" if own[-1]["fired"] else "MISSED") if own else "-"
    if others:
        last += " (also %s)" % ", ".join(others)
    print("| %s | %s | %s | %s | %s |" % (sid, needs.replace("|", "\\|"), first, last, note.replace("|", "\\|")))
