#!/usr/bin/env python3
"""Write seeded/<id>/meta.json from a table (id -> [property, change, needs]) and confirm.json."""
import json, os, sys
tab = json.load(open(sys.argv[1]))
for sid, ent in tab.items():
    prop, change, needs = ent[:3]
    d = "/verif/seeded/%s" % sid
    if not os.path.exists(os.path.join(d, "confirm.json")):
        print("no confirm.json for", sid); continue
    c = json.load(open(os.path.join(d, "confirm.json")))
    meta = {"property": prop, "id": sid, "change": change, "needs_to_manifest": needs,
            "origin": "written by a fresh sub-agent that was given only the property text and its own scratch worktree of /repo",
            "demonstration": "demo.rs (placement and command in README.md)",
            "confirmed": c["confirmed"],
            "what_was_run": ["scratch worktree of /repo at %s (outside /repo and /verif), patch.diff applied, demo.rs placed: `%s` -> all %d stable baseline tests pass (%d tests passed in total), failing tests other than the demo: %s, demo tests failing: %s"
                             % (c["repo_head"][:7], c["with_patch"]["command"], c["with_patch"]["stable_tests"], c["with_patch"]["passed"],
                                c["with_patch"]["failed_other_than_demo"], c["with_patch"]["demo_failed"]),
                             "same worktree, patch reverse-applied: `%s` -> passed %s, failed %s" % (c["pristine"]["command"], c["pristine"]["demo_passed"], c["pristine"]["demo_failed"])]}
    json.dump(meta, open(os.path.join(d, "meta.json"), "w"), indent=1)
    print("wrote", sid)
