#!/bin/sh
# Build the framework offline from files on disk: the probe worker (release layer) from /repo's
# current tree, then the reference models' self-tests.
set -e
cd "$(dirname "$0")"
export CARGO_NET_OFFLINE=true
python3 - <<'PY'
import sys
sys.path.insert(0, '.')
from vt import build
for layer in ('rel', 'dbg', 'rel:api', 'unst'):
    build.ensure(layer, quiet=False)
from vt import selftest
selftest.main()
PY
