#!/usr/bin/env python3
"""Run the repository's own test suite (hooks: none; guard off) and compare with BASELINE.json.
Usage: tools_baseline.py [logfile]  (with a logfile: only parse it)"""
import json, re, subprocess, sys, os
base = json.load(open('/root/.vp/BASELINE.json'))
stable = set(base['stable_pass'])
if len(sys.argv) > 1:
    log = open(sys.argv[1]).read()
else:
    env = dict(os.environ, RUSTUP_TOOLCHAIN='1.88.0', CARGO_NET_OFFLINE='true')
    p = subprocess.run("cd /repo && cargo nextest run --workspace --no-fail-fast --test-threads 8 --offline",
                       shell=True, env=env, stdout=subprocess.PIPE, stderr=subprocess.STDOUT)
    log = p.stdout.decode('utf-8', 'replace')
    open('/tmp/baseline_last.log', 'w').write(log)
passed, failed = set(), set()
for m in re.finditer(r'^\s+(PASS|FAIL)\s+\[[^\]]*\]\s+(?:\(\s*\d+/\d+\)\s+)?(\S+?)(?:::(\S+))?\s+(\S+)\s*$', log, re.M):
    st, crate, binary, test = m.groups()
    name = crate + ('::' + binary if binary else '') + '::' + test
    (passed if st == 'PASS' else failed).add(name)
missing = sorted(stable - passed)
print("stable_pass: %d, passed now: %d, failed now: %d, stable tests not passing: %d" % (len(stable), len(passed), len(failed), len(missing)))
for n in missing[:30]: print("  NOT PASSING:", n)
for n in sorted(failed): print("  failed (in stable: %s): %s" % (n in stable, n))
sys.exit(1 if missing else 0)
