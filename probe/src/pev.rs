//! A plain event type implementing `ruma_state_res::Event`, built from the command's JSON.

use std::sync::Arc;

use ruma_common::{
    EventId, MilliSecondsSinceUnixEpoch, OwnedEventId, OwnedRoomId, OwnedUserId, RoomId, UserId,
};
use ruma_events::TimelineEventType;
use ruma_state_res::Event;
use serde_json::{value::RawValue, Value};

#[derive(Debug)]
pub struct PEvInner {
    pub event_id: OwnedEventId,
    pub room_id: OwnedRoomId,
    pub sender: OwnedUserId,
    pub ts: MilliSecondsSinceUnixEpoch,
    pub ty: TimelineEventType,
    pub content: Box<RawValue>,
    pub state_key: Option<String>,
    pub prev: Vec<OwnedEventId>,
    pub auth: Vec<OwnedEventId>,
    pub redacts: Option<OwnedEventId>,
}

#[derive(Debug, Clone)]
pub struct PEv(pub Arc<PEvInner>);

fn ids(v: Option<&Value>) -> Result<Vec<OwnedEventId>, String> {
    match v.and_then(Value::as_array) {
        None => Ok(vec![]),
        Some(a) => a
            .iter()
            .map(|x| {
                OwnedEventId::try_from(x.as_str().unwrap_or(""))
                    .map_err(|e| format!("harness: event id {x}: {e}"))
            })
            .collect(),
    }
}

impl PEv {
    pub fn from_json(v: &Value) -> Result<Self, String> {
        let st = |k: &str| -> Result<&str, String> {
            v.get(k).and_then(Value::as_str).ok_or_else(|| format!("harness: event.{k}"))
        };
        let content = match v.get("content") {
            Some(Value::String(raw)) => RawValue::from_string(raw.clone())
                .map_err(|e| format!("harness: content text: {e}"))?,
            Some(c) => serde_json::value::to_raw_value(c).map_err(|e| format!("harness: content: {e}"))?,
            None => RawValue::from_string("{}".to_owned()).unwrap(),
        };
        Ok(PEv(Arc::new(PEvInner {
            event_id: OwnedEventId::try_from(st("event_id")?).map_err(|e| format!("harness: event_id: {e}"))?,
            room_id: OwnedRoomId::try_from(st("room_id")?).map_err(|e| format!("harness: room_id: {e}"))?,
            sender: OwnedUserId::try_from(st("sender")?).map_err(|e| format!("harness: sender: {e}"))?,
            ts: MilliSecondsSinceUnixEpoch(
                js_int::UInt::try_from(v.get("origin_server_ts").and_then(Value::as_u64).unwrap_or(0))
                    .map_err(|e| format!("harness: ts: {e}"))?,
            ),
            ty: TimelineEventType::from(st("type")?),
            content,
            state_key: v.get("state_key").and_then(Value::as_str).map(str::to_owned),
            prev: ids(v.get("prev_events"))?,
            auth: ids(v.get("auth_events"))?,
            redacts: match v.get("redacts").and_then(Value::as_str) {
                Some(r) => Some(OwnedEventId::try_from(r).map_err(|e| format!("harness: redacts: {e}"))?),
                None => None,
            },
        })))
    }
}

impl Event for PEv {
    type Id = OwnedEventId;

    fn event_id(&self) -> &Self::Id {
        &self.0.event_id
    }
    fn room_id(&self) -> &RoomId {
        &self.0.room_id
    }
    fn sender(&self) -> &UserId {
        &self.0.sender
    }
    fn origin_server_ts(&self) -> MilliSecondsSinceUnixEpoch {
        self.0.ts
    }
    fn event_type(&self) -> &TimelineEventType {
        &self.0.ty
    }
    fn content(&self) -> &RawValue {
        &self.0.content
    }
    fn state_key(&self) -> Option<&str> {
        self.0.state_key.as_deref()
    }
    fn prev_events(&self) -> Box<dyn DoubleEndedIterator<Item = &Self::Id> + '_> {
        Box::new(self.0.prev.iter())
    }
    fn auth_events(&self) -> Box<dyn DoubleEndedIterator<Item = &Self::Id> + '_> {
        Box::new(self.0.auth.iter())
    }
    fn redacts(&self) -> Option<&Self::Id> {
        self.0.redacts.as_ref()
    }
}

#[allow(dead_code)]
pub fn eid(s: &str) -> Result<&EventId, String> {
    <&EventId>::try_from(s).map_err(|e| format!("harness: event id: {e}"))
}
