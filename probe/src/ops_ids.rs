//! Adapters for identifier parsing / accessors / constructors (C10) and Matrix URIs (C11).

use std::{rc::Rc, sync::Arc};

use ruma_common::{
    matrix_uri::{MatrixId, UriAction},
    AnyKeyName, Base64PublicKey, Base64PublicKeyOrDeviceId, ClientSecret, CrossSigningKeyId,
    CrossSigningOrDeviceSigningKeyId, DeviceId, DeviceKeyId, DeviceSigningKeyId, EventId,
    MatrixToUri, MatrixUri, MxcUri, OneTimeKeyId, OneTimeKeyName, OwnedEventId, OwnedRoomAliasId,
    OwnedRoomId, OwnedServerName, OwnedUserId, RoomAliasId, RoomId, RoomOrAliasId, RoomVersionId,
    ServerName, ServerSigningKeyId, ServerSigningKeyVersion, SessionId, SigningKeyId,
    TransactionId, UserId, VoipId,
};
use serde_json::{json, Map, Value};

use crate::{b, opt_s, s, OpResult};

fn r<T: AsRef<str>, E: std::fmt::Display>(x: Result<T, E>) -> Value {
    match x {
        Ok(v) => json!({"ok": v.as_ref()}),
        Err(e) => json!({"err": e.to_string()}),
    }
}

/// All acceptance forms of a validated identifier type + the text each form stores/prints.
macro_rules! checked_forms {
    ($ty:ty, $owned:ty, $s:expr) => {{
        let s: &str = $s;
        let mut m = Map::new();
        m.insert("borrowed".into(), r(<&$ty>::try_from(s).map(|i| i.as_str().to_owned())));
        m.insert("owned".into(), r(<$ty>::parse(s).map(|i| i.as_str().to_owned())));
        m.insert("box".into(), r(<$ty>::parse_box(s).map(|i| i.as_str().to_owned())));
        m.insert(
            "rc".into(),
            r(<$ty>::parse_rc(Rc::<str>::from(s)).map(|i: Rc<$ty>| i.as_str().to_owned())),
        );
        m.insert(
            "arc".into(),
            r(<$ty>::parse_arc(Arc::<str>::from(s)).map(|i: Arc<$ty>| i.as_str().to_owned())),
        );
        m.insert("fromstr".into(), r(s.parse::<$owned>().map(|i| i.as_str().to_owned())));
        m.insert(
            "try_from_string".into(),
            r(<$owned>::try_from(s.to_owned()).map(|i| i.as_str().to_owned())),
        );
        let js = serde_json::to_string(s).unwrap();
        m.insert(
            "serde".into(),
            r(serde_json::from_str::<$owned>(&js).map(|i| i.as_str().to_owned())),
        );
        m.insert(
            "serde_box".into(),
            r(serde_json::from_str::<Box<$ty>>(&js).map(|i| i.as_str().to_owned())),
        );
        let mut out = Map::new();
        if let Ok(id) = <$ty>::parse(s) {
            out.insert("display".into(), json!(id.to_string()));
            out.insert("json".into(), json!(serde_json::to_string(&id).unwrap_or_default()));
            out.insert("string_from".into(), json!(String::from(id.clone())));
            let bytes: &[u8] = id.as_bytes();
            out.insert("bytes_equal".into(), json!(bytes == s.as_bytes()));
        }
        out.insert("forms".into(), Value::Object(m));
        out
    }};
}

macro_rules! unchecked_forms {
    ($ty:ty, $owned:ty, $s:expr) => {{
        let s: &str = $s;
        let mut m = Map::new();
        let b: &$ty = s.into();
        m.insert("borrowed".into(), json!({"ok": b.as_str()}));
        let o: $owned = s.into();
        m.insert("owned".into(), json!({"ok": o.as_str()}));
        let js = serde_json::to_string(s).unwrap();
        m.insert(
            "serde".into(),
            r(serde_json::from_str::<$owned>(&js).map(|i| i.as_str().to_owned())),
        );
        let mut out = Map::new();
        out.insert("display".into(), json!(o.to_string()));
        out.insert("json".into(), json!(serde_json::to_string(&o).unwrap_or_default()));
        out.insert("forms".into(), Value::Object(m));
        out
    }};
}

macro_rules! key_id_case {
    ($ty:ty, $owned:ty, $s:expr) => {{
        let mut out = checked_forms!($ty, $owned, $s);
        if let Ok(id) = <&$ty>::try_from($s) {
            out.insert(
                "acc".into(),
                json!({"algorithm": id.algorithm().as_ref() as &str, "key_name": id.key_name().as_str()}),
            );
        }
        out
    }};
}

fn parse_id(cmd: &Value) -> OpResult {
    let ty = s(cmd, "type")?;
    let st = s(cmd, "s")?;
    let out = match ty {
        "user_id" => {
            let mut out = checked_forms!(UserId, OwnedUserId, st);
            if let Ok(id) = <&UserId>::try_from(st) {
                out.insert(
                    "acc".into(),
                    json!({
                        "localpart": id.localpart(),
                        "server_name": id.server_name().as_str(),
                        "is_historical": id.is_historical(),
                        "validate_strict": id.validate_strict().is_ok(),
                        "validate_historical": id.validate_historical().is_ok(),
                    }),
                );
            }
            out
        }
        "server_name" => {
            let mut out = checked_forms!(ServerName, OwnedServerName, st);
            if let Ok(id) = <&ServerName>::try_from(st) {
                out.insert(
                    "acc".into(),
                    json!({"host": id.host(), "port": id.port(), "is_ip_literal": id.is_ip_literal()}),
                );
            }
            out
        }
        "room_id" => {
            let mut out = checked_forms!(RoomId, OwnedRoomId, st);
            if let Ok(id) = <&RoomId>::try_from(st) {
                out.insert(
                    "acc".into(),
                    json!({"server_name": id.server_name().map(|x| x.as_str())}),
                );
            }
            out
        }
        "room_alias_id" => {
            let mut out = checked_forms!(RoomAliasId, OwnedRoomAliasId, st);
            if let Ok(id) = <&RoomAliasId>::try_from(st) {
                out.insert(
                    "acc".into(),
                    json!({"alias": id.alias(), "server_name": id.server_name().as_str()}),
                );
            }
            out
        }
        "room_or_alias_id" => {
            let mut out = checked_forms!(RoomOrAliasId, ruma_common::OwnedRoomOrAliasId, st);
            if let Ok(id) = <&RoomOrAliasId>::try_from(st) {
                let as_room: Result<&RoomId, _> = id.try_into();
                let as_alias: Result<&RoomAliasId, _> = id.try_into();
                out.insert(
                    "acc".into(),
                    json!({
                        "server_name": id.server_name().map(|x| x.as_str()),
                        "is_room_id": id.is_room_id(),
                        "is_room_alias_id": id.is_room_alias_id(),
                        "as_room_id": as_room.ok().map(|x| x.as_str()),
                        "as_room_alias_id": as_alias.ok().map(|x| x.as_str()),
                    }),
                );
            }
            out
        }
        "event_id" => {
            let mut out = checked_forms!(EventId, OwnedEventId, st);
            if let Ok(id) = <&EventId>::try_from(st) {
                out.insert(
                    "acc".into(),
                    json!({
                        "localpart": id.localpart(),
                        "server_name": id.server_name().map(|x| x.as_str()),
                    }),
                );
            }
            out
        }
        "server_signing_key_id" => {
            key_id_case!(ServerSigningKeyId, ruma_common::OwnedServerSigningKeyId, st)
        }
        "device_signing_key_id" => {
            key_id_case!(DeviceSigningKeyId, ruma_common::OwnedDeviceSigningKeyId, st)
        }
        "cross_signing_key_id" => {
            key_id_case!(CrossSigningKeyId, ruma_common::OwnedCrossSigningKeyId, st)
        }
        "cross_signing_or_device_signing_key_id" => key_id_case!(
            CrossSigningOrDeviceSigningKeyId,
            ruma_common::OwnedCrossSigningOrDeviceSigningKeyId,
            st
        ),
        "device_key_id" => key_id_case!(DeviceKeyId, ruma_common::OwnedDeviceKeyId, st),
        "one_time_key_id" => key_id_case!(OneTimeKeyId, ruma_common::OwnedOneTimeKeyId, st),
        "any_signing_key_id" => {
            key_id_case!(SigningKeyId<AnyKeyName>, ruma_common::OwnedSigningKeyId<AnyKeyName>, st)
        }
        "server_signing_key_version" => checked_forms!(
            ServerSigningKeyVersion,
            ruma_common::OwnedServerSigningKeyVersion,
            st
        ),
        "client_secret" => checked_forms!(ClientSecret, ruma_common::OwnedClientSecret, st),
        "base64_public_key" => {
            checked_forms!(Base64PublicKey, ruma_common::OwnedBase64PublicKey, st)
        }
        "session_id" => checked_forms!(SessionId, ruma_common::OwnedSessionId, st),
        "device_id" => unchecked_forms!(DeviceId, ruma_common::OwnedDeviceId, st),
        "transaction_id" => unchecked_forms!(TransactionId, ruma_common::OwnedTransactionId, st),
        "one_time_key_name" => {
            unchecked_forms!(OneTimeKeyName, ruma_common::OwnedOneTimeKeyName, st)
        }
        "voip_id" => unchecked_forms!(VoipId, ruma_common::OwnedVoipId, st),
        "base64_public_key_or_device_id" => unchecked_forms!(
            Base64PublicKeyOrDeviceId,
            ruma_common::OwnedBase64PublicKeyOrDeviceId,
            st
        ),
        "mxc_uri" => {
            let mut out = unchecked_forms!(MxcUri, ruma_common::OwnedMxcUri, st);
            let id: &MxcUri = st.into();
            let parts = id.parts().map(|(sn, mid)| json!({"server_name": sn.as_str(), "media_id": mid}));
            out.insert(
                "acc".into(),
                json!({
                    "validate": id.validate().map_err(|e| e.to_string()).err(),
                    "is_valid": id.is_valid(),
                    "parts": parts.map_err(|e| e.to_string()).ok(),
                    "server_name": id.server_name().ok().map(|x| x.as_str()),
                    "media_id": id.media_id().ok(),
                }),
            );
            out
        }
        "room_version_id" => {
            let mut m = Map::new();
            m.insert(
                "borrowed".into(),
                r(RoomVersionId::try_from(st).map(|i| i.as_str().to_owned())),
            );
            m.insert(
                "owned".into(),
                r(RoomVersionId::try_from(st.to_owned()).map(|i| i.as_str().to_owned())),
            );
            m.insert("fromstr".into(), r(st.parse::<RoomVersionId>().map(|i| i.as_str().to_owned())));
            let js = serde_json::to_string(st).unwrap();
            m.insert(
                "serde".into(),
                r(serde_json::from_str::<RoomVersionId>(&js).map(|i| i.as_str().to_owned())),
            );
            let mut out = Map::new();
            if let Ok(id) = RoomVersionId::try_from(st) {
                out.insert("display".into(), json!(id.to_string()));
                out.insert("json".into(), json!(serde_json::to_string(&id).unwrap_or_default()));
                out.insert("string_from".into(), json!(String::from(id.clone())));
                out.insert("acc".into(), json!({"has_rules": id.rules().is_some()}));
            }
            out.insert("forms".into(), Value::Object(m));
            out
        }
        _ => return Err(format!("harness: unknown id type {ty}")),
    };
    Ok(Value::Object(out))
}

fn construct_id(cmd: &Value) -> OpResult {
    let kind = s(cmd, "kind")?;
    let server = || -> Result<&ServerName, String> {
        <&ServerName>::try_from(s(cmd, "server")?).map_err(|e| format!("harness: server: {e}"))
    };
    Ok(match kind {
        "user_with_server" => {
            let id = s(cmd, "localpart")?;
            let sn = server()?;
            json!({
                "box": r(UserId::parse_with_server_name(id, sn).map(|x| x.as_str().to_owned())),
                "rc": r(UserId::parse_with_server_name_rc(id, sn).map(|x| x.as_str().to_owned())),
                "arc": r(UserId::parse_with_server_name_arc(id, sn).map(|x| x.as_str().to_owned())),
            })
        }
        "user_new" => json!({"ok": UserId::new(server()?).as_str()}),
        "room_new" => json!({"ok": RoomId::new(server()?).as_str()}),
        "event_new" => json!({"ok": EventId::new(server()?).as_str()}),
        "alias_from_parts" => {
            // no public from_parts for aliases; covered through parsing
            json!({"ok": null})
        }
        "server_signing_key_id" => {
            let alg = ruma_common::SigningKeyAlgorithm::from(s(cmd, "algorithm")?);
            let name = <&ServerSigningKeyVersion>::try_from(s(cmd, "name")?)
                .map_err(|e| format!("harness: name: {e}"))?;
            json!({"ok": ServerSigningKeyId::from_parts(alg, name).as_str()})
        }
        "device_key_id" => {
            let alg = ruma_common::DeviceKeyAlgorithm::from(s(cmd, "algorithm")?);
            let name: &DeviceId = s(cmd, "name")?.into();
            json!({"ok": DeviceKeyId::from_parts(alg, name).as_str()})
        }
        "one_time_key_id" => {
            let alg = ruma_common::OneTimeKeyAlgorithm::from(s(cmd, "algorithm")?);
            let name: &OneTimeKeyName = s(cmd, "name")?.into();
            json!({"ok": OneTimeKeyId::from_parts(alg, name).as_str()})
        }
        "transaction_new" => json!({"ok": TransactionId::new().as_str()}),
        "device_new" => json!({"ok": DeviceId::new().as_str()}),
        "client_secret_new" => json!({"ok": ClientSecret::new().as_str()}),
        "session_from_tx" => json!({"ok": null}),
        _ => return Err(format!("harness: unknown constructor {kind}")),
    })
}

// ---------------------------------------------------------------------------
// Matrix URIs (C11)

fn dump_matrix_id(id: &MatrixId) -> Value {
    match id {
        MatrixId::Room(x) => json!({"kind": "room", "id": x.as_str()}),
        MatrixId::RoomAlias(x) => json!({"kind": "alias", "id": x.as_str()}),
        MatrixId::User(x) => json!({"kind": "user", "id": x.as_str()}),
        MatrixId::Event(room, ev) => {
            json!({"kind": "event", "room": room.as_str(), "id": ev.as_str()})
        }
        _ => json!({"kind": "unknown"}),
    }
}

fn dump_to(u: &MatrixToUri) -> Value {
    json!({
        "id": dump_matrix_id(u.id()),
        "via": u.via().iter().map(|x| x.as_str()).collect::<Vec<_>>(),
        "text": u.to_string(),
    })
}

fn dump_uri(u: &MatrixUri) -> Value {
    json!({
        "id": dump_matrix_id(u.id()),
        "via": u.via().iter().map(|x| x.as_str()).collect::<Vec<_>>(),
        "action": u.action().map(|a| a.as_str()),
        "text": u.to_string(),
    })
}

fn uri_parse(cmd: &Value) -> OpResult {
    let text = s(cmd, "text")?;
    let to = MatrixToUri::parse(text);
    let uri = MatrixUri::parse(text);
    let reparse_to = to.as_ref().ok().map(|u| match MatrixToUri::parse(&u.to_string()) {
        Ok(v) => dump_to(&v),
        Err(e) => json!({"err": e.to_string()}),
    });
    let reparse_uri = uri.as_ref().ok().map(|u| match MatrixUri::parse(&u.to_string()) {
        Ok(v) => dump_uri(&v),
        Err(e) => json!({"err": e.to_string()}),
    });
    Ok(json!({
        "matrix_to": match &to { Ok(u) => dump_to(u), Err(e) => json!({"err": e.to_string()}) },
        "matrix": match &uri { Ok(u) => dump_uri(u), Err(e) => json!({"err": e.to_string()}) },
        "matrix_to_again": reparse_to,
        "matrix_again": reparse_uri,
    }))
}

fn uri_build(cmd: &Value) -> OpResult {
    // {"kind": user|room|alias|event|alias_event, "id":.., "event":.., "via":[..], "action": join|chat|null}
    let kind = s(cmd, "kind")?;
    let id = s(cmd, "target")?;
    let via: Vec<OwnedServerName> = cmd
        .get("via")
        .and_then(Value::as_array)
        .map(|a| {
            a.iter()
                .filter_map(|v| v.as_str())
                .map(|v| OwnedServerName::try_from(v).map_err(|e| format!("harness: via {v:?}: {e}")))
                .collect::<Result<Vec<_>, _>>()
        })
        .transpose()?
        .unwrap_or_default();
    let flag = b(cmd, "flag");
    let h = |e: ruma_common::IdParseError| format!("harness: id {id:?}: {e}");
    let (to, uri): (MatrixToUri, MatrixUri) = match kind {
        "user" => {
            let u = <&UserId>::try_from(id).map_err(h)?;
            (u.matrix_to_uri(), u.matrix_uri(flag))
        }
        "room" => {
            let r = <&RoomId>::try_from(id).map_err(h)?;
            if via.is_empty() && !b(cmd, "force_via") {
                (r.matrix_to_uri(), r.matrix_uri(flag))
            } else {
                (r.matrix_to_uri_via(via.clone()), r.matrix_uri_via(via.clone(), flag))
            }
        }
        "alias" => {
            let a = <&RoomAliasId>::try_from(id).map_err(h)?;
            (a.matrix_to_uri(), a.matrix_uri(flag))
        }
        "event" => {
            let r = <&RoomId>::try_from(id).map_err(h)?;
            let ev = <&EventId>::try_from(s(cmd, "event")?)
                .map_err(|e| format!("harness: event: {e}"))?;
            if via.is_empty() && !b(cmd, "force_via") {
                (r.matrix_to_event_uri(ev), r.matrix_event_uri(ev))
            } else {
                (r.matrix_to_event_uri_via(ev, via.clone()), r.matrix_event_uri_via(ev, via.clone()))
            }
        }
        "alias_event" => {
            let a = <&RoomAliasId>::try_from(id).map_err(h)?;
            let ev = <&EventId>::try_from(s(cmd, "event")?)
                .map_err(|e| format!("harness: event: {e}"))?;
            #[allow(deprecated)]
            (a.matrix_to_event_uri(ev), a.matrix_event_uri(ev))
        }
        _ => return Err(format!("harness: unknown uri kind {kind}")),
    };
    let back_to = match MatrixToUri::parse(&to.to_string()) {
        Ok(v) => dump_to(&v),
        Err(e) => json!({"err": e.to_string()}),
    };
    let back_uri = match MatrixUri::parse(&uri.to_string()) {
        Ok(v) => dump_uri(&v),
        Err(e) => json!({"err": e.to_string()}),
    };
    let _ = UriAction::Join;
    Ok(json!({
        "matrix_to": dump_to(&to), "matrix": dump_uri(&uri),
        "matrix_to_back": back_to, "matrix_back": back_uri,
    }))
}

pub fn dispatch(op: &str, cmd: &Value) -> Option<OpResult> {
    let _ = opt_s;
    Some(match op {
        "parse_id" => parse_id(cmd),
        "construct_id" => construct_id(cmd),
        "uri_parse" => uri_parse(cmd),
        "uri_build" => uri_build(cmd),
        _ => return None,
    })
}
