//! Synthetic endpoints defined with ruma's real `#[request]` / `#[response]` / `metadata!` macros,
//! covering every field-attribute kind. Values are built from the command's JSON arguments.
#![allow(clippy::exhaustive_structs)]

use ruma_common::api::{Metadata, OutgoingRequest};
use serde_json::{json, Value};

use crate::{cycle_from_value, opt_s, response_cycle_from_value, s, OpResult};

fn strs(v: Option<&Value>) -> Vec<String> {
    v.and_then(Value::as_array)
        .map(|a| a.iter().filter_map(Value::as_str).map(str::to_owned).collect())
        .unwrap_or_default()
}

pub mod all_kinds {
    use http::header::{ACCEPT_LANGUAGE, CONTENT_LANGUAGE, CONTENT_TYPE};
    use js_int::UInt;
    use ruma_common::{
        api::{request, response, Metadata},
        metadata, OwnedUserId,
    };

    pub const METADATA: Metadata = metadata! {
        method: POST,
        rate_limited: false,
        authentication: AccessToken,
        history: {
            unstable => "/_matrix/synth/unstable/:a/mid/:user/:c",
            1.1 => "/_matrix/synth/v1/:a/mid/:user/:c",
            1.6 => "/_matrix/synth/v2/:a/mid/:user/:c",
        }
    };

    #[request]
    pub struct Request {
        #[ruma_api(path)]
        pub a: String,
        #[ruma_api(path)]
        pub user: OwnedUserId,
        #[ruma_api(path)]
        pub c: String,
        #[ruma_api(query)]
        pub q1: String,
        #[ruma_api(query)]
        #[serde(skip_serializing_if = "Option::is_none")]
        pub q2: Option<String>,
        #[ruma_api(query)]
        #[serde(default, skip_serializing_if = "Vec::is_empty")]
        pub q3: Vec<String>,
        #[ruma_api(header = CONTENT_TYPE)]
        pub content_type: String,
        #[ruma_api(header = ACCEPT_LANGUAGE)]
        pub lang: Option<String>,
        pub s: String,
        #[serde(skip_serializing_if = "Option::is_none")]
        pub n: Option<UInt>,
        #[serde(default, skip_serializing_if = "Vec::is_empty")]
        pub list: Vec<String>,
        #[serde(default, skip_serializing_if = "ruma_common::serde::is_default")]
        pub flag: bool,
    }

    #[response]
    pub struct Response {
        #[ruma_api(header = CONTENT_TYPE)]
        pub content_type: String,
        #[ruma_api(header = CONTENT_LANGUAGE)]
        pub lang: Option<String>,
        pub value: String,
        #[serde(skip_serializing_if = "Option::is_none")]
        pub optional_flag: Option<bool>,
        #[serde(default, skip_serializing_if = "Vec::is_empty")]
        pub items: Vec<String>,
    }
}

pub mod query_all {
    use js_int::UInt;
    use ruma_common::{
        api::{request, response, Metadata},
        metadata,
    };
    use serde::{Deserialize, Serialize};

    pub const METADATA: Metadata = metadata! {
        method: GET,
        rate_limited: false,
        authentication: None,
        history: {
            1.0 => "/_matrix/synth/q/:id",
        }
    };

    #[derive(Clone, Debug, Default, Deserialize, Serialize, PartialEq)]
    pub struct Filter {
        #[serde(skip_serializing_if = "Option::is_none")]
        pub from: Option<String>,
        #[serde(skip_serializing_if = "Option::is_none")]
        pub limit: Option<UInt>,
        #[serde(default, skip_serializing_if = "Vec::is_empty")]
        pub types: Vec<String>,
        pub dir: String,
    }

    #[request]
    pub struct Request {
        #[ruma_api(path)]
        pub id: String,
        #[ruma_api(query_all)]
        pub filter: Filter,
    }

    #[response]
    #[derive(Default)]
    pub struct Response {}
}

pub mod newtype_body {
    use ruma_common::{
        api::{request, response, Metadata},
        metadata,
    };
    use serde::{Deserialize, Serialize};

    pub const METADATA: Metadata = metadata! {
        method: PUT,
        rate_limited: false,
        authentication: AccessTokenOptional,
        history: {
            unstable => "/_matrix/synth/unstable/newtype/:key",
            1.3 => "/_matrix/synth/v3/newtype/:key",
            1.8 => deprecated,
            1.11 => removed,
        }
    };

    #[derive(Clone, Debug, Deserialize, Serialize)]
    pub struct Payload {
        pub a_field: String,
        #[serde(default, skip_serializing_if = "Option::is_none")]
        pub nested: Option<Box<Payload>>,
        #[serde(default)]
        pub numbers: Vec<i64>,
    }

    #[request]
    pub struct Request {
        #[ruma_api(path)]
        pub key: String,
        #[ruma_api(body)]
        pub payload: Payload,
    }

    #[response]
    pub struct Response {
        #[ruma_api(body)]
        pub payload: Payload,
    }
}

pub mod raw_body {
    use http::header::{CONTENT_DISPOSITION, CONTENT_TYPE};
    use ruma_common::{
        api::{request, response, Metadata},
        metadata,
    };

    pub const METADATA: Metadata = metadata! {
        method: POST,
        rate_limited: true,
        authentication: None,
        history: {
            1.0 => "/_matrix/synth/raw",
        }
    };

    #[request]
    pub struct Request {
        #[ruma_api(query)]
        #[serde(skip_serializing_if = "Option::is_none")]
        pub filename: Option<String>,
        #[ruma_api(header = CONTENT_TYPE)]
        pub content_type: Option<String>,
        #[ruma_api(raw_body)]
        pub data: Vec<u8>,
    }

    #[response]
    pub struct Response {
        #[ruma_api(header = CONTENT_TYPE)]
        pub content_type: Option<String>,
        #[ruma_api(header = CONTENT_DISPOSITION)]
        pub disposition: Option<String>,
        #[ruma_api(raw_body)]
        pub data: Vec<u8>,
    }
}

/// A response whose success status is not 2xx (like the SSO redirect endpoints).
pub mod redirect {
    use http::header::{LOCATION, SET_COOKIE};
    use ruma_common::{
        api::{request, response, Metadata},
        metadata,
    };

    pub const METADATA: Metadata = metadata! {
        method: GET,
        rate_limited: false,
        authentication: None,
        history: {
            1.0 => "/_matrix/synth/redirect",
        }
    };

    #[request]
    pub struct Request {}

    #[response(status = FOUND)]
    pub struct Response {
        #[ruma_api(header = LOCATION)]
        pub location: String,
        #[ruma_api(header = SET_COOKIE)]
        pub cookie: Option<String>,
    }
}

/// A response with a 2xx status other than 200 and a body.
pub mod created {
    use ruma_common::{
        api::{request, response, Metadata},
        metadata,
    };

    pub const METADATA: Metadata = metadata! {
        method: POST,
        rate_limited: false,
        authentication: None,
        history: {
            1.0 => "/_matrix/synth/created",
        }
    };

    #[request]
    pub struct Request {}

    #[response(status = CREATED)]
    pub struct Response {
        pub value: String,
    }
}

pub fn metadata(name: &str) -> Option<Metadata> {
    Some(match name {
        "synth.all_kinds" => <all_kinds::Request as OutgoingRequest>::METADATA,
        "synth.query_all" => <query_all::Request as OutgoingRequest>::METADATA,
        "synth.newtype_body" => <newtype_body::Request as OutgoingRequest>::METADATA,
        "synth.raw_body" => <raw_body::Request as OutgoingRequest>::METADATA,
        _ => return None,
    })
}

pub fn describe_all() -> Value {
    json!(["synth.all_kinds", "synth.query_all", "synth.newtype_body", "synth.raw_body"]
        .iter()
        .map(|n| {
            let m = metadata(n).unwrap();
            json!({"name": n, "method": m.method.as_str(), "authentication": format!("{:?}", m.authentication),
                   "unstable_paths": m.history.unstable_paths().collect::<Vec<_>>(),
                   "stable_paths": m.history.stable_paths().map(|(v, p)| json!([format!("{v:?}"), p])).collect::<Vec<_>>(),
                   "deprecated": m.history.deprecated_in().map(|v| format!("{v:?}")),
                   "removed": m.history.removed_in().map(|v| format!("{v:?}"))})
        })
        .collect::<Vec<_>>())
}

fn payload_of(v: &Value) -> Result<newtype_body::Payload, String> {
    serde_json::from_value(v.clone()).map_err(|e| format!("harness: payload: {e}"))
}

pub fn request(cmd: &Value) -> OpResult {
    let a = cmd.get("args").ok_or("harness: args")?;
    match s(cmd, "endpoint")? {
        "synth.all_kinds" => {
            let v = all_kinds::Request {
                a: s(a, "a")?.to_owned(),
                user: s(a, "user")?.try_into().map_err(|e| format!("harness: user: {e}"))?,
                c: s(a, "c")?.to_owned(),
                q1: s(a, "q1")?.to_owned(),
                q2: opt_s(a, "q2").map(str::to_owned),
                q3: strs(a.get("q3")),
                content_type: s(a, "content_type")?.to_owned(),
                lang: opt_s(a, "lang").map(str::to_owned),
                s: s(a, "s")?.to_owned(),
                n: a.get("n").and_then(Value::as_u64).and_then(|n| js_int::UInt::try_from(n).ok()),
                list: strs(a.get("list")),
                flag: crate::b(a, "flag"),
            };
            cycle_from_value(v, cmd)
        }
        "synth.query_all" => {
            let v = query_all::Request {
                id: s(a, "id")?.to_owned(),
                filter: query_all::Filter {
                    from: opt_s(a, "from").map(str::to_owned),
                    limit: a.get("limit").and_then(Value::as_u64).and_then(|n| js_int::UInt::try_from(n).ok()),
                    types: strs(a.get("types")),
                    dir: s(a, "dir")?.to_owned(),
                },
            };
            cycle_from_value(v, cmd)
        }
        "synth.newtype_body" => {
            let v = newtype_body::Request {
                key: s(a, "key")?.to_owned(),
                payload: payload_of(a.get("payload").ok_or("harness: payload")?)?,
            };
            cycle_from_value(v, cmd)
        }
        "synth.raw_body" => {
            let v = raw_body::Request {
                filename: opt_s(a, "filename").map(str::to_owned),
                content_type: opt_s(a, "content_type").map(str::to_owned),
                data: s(a, "data")?.as_bytes().to_vec(),
            };
            cycle_from_value(v, cmd)
        }
        x => Err(format!("harness: synthetic endpoint {x}")),
    }
}

pub fn response(cmd: &Value) -> OpResult {
    let a = cmd.get("args").ok_or("harness: args")?;
    match s(cmd, "endpoint")? {
        "synth.all_kinds" => response_cycle_from_value(all_kinds::Response {
            content_type: s(a, "content_type")?.to_owned(),
            lang: opt_s(a, "lang").map(str::to_owned),
            value: s(a, "value")?.to_owned(),
            optional_flag: a.get("optional_flag").and_then(Value::as_bool),
            items: strs(a.get("items")),
        }),
        "synth.newtype_body" => response_cycle_from_value(newtype_body::Response {
            payload: payload_of(a.get("payload").ok_or("harness: payload")?)?,
        }),
        "synth.raw_body" => response_cycle_from_value(raw_body::Response {
            content_type: opt_s(a, "content_type").map(str::to_owned),
            disposition: opt_s(a, "disposition").map(str::to_owned),
            data: s(a, "data")?.as_bytes().to_vec(),
        }),
        "synth.query_all" => response_cycle_from_value(query_all::Response {}),
        "synth.redirect" => response_cycle_from_value(redirect::Response {
            location: s(a, "location")?.to_owned(),
            cookie: opt_s(a, "cookie").map(str::to_owned),
        }),
        "synth.created" => response_cycle_from_value(created::Response { value: s(a, "value")?.to_owned() }),
        "real.sso_login" => response_cycle_from_value({
            let mut r = ruma_client_api::session::sso_login::v3::Response::new(s(a, "location")?.to_owned());
            r.cookie = opt_s(a, "cookie").map(str::to_owned);
            r
        }),
        x => Err(format!("harness: synthetic endpoint {x}")),
    }
}
