//! Adapters for push rule evaluation (C12) and ruleset edits (C13).

use std::collections::BTreeMap;

use js_int::{Int, UInt};
use ruma_common::{
    power_levels::NotificationPowerLevels,
    push::{
        Action, AnyPushRuleRef, FlattenedJson, FlattenedJsonValue, NewConditionalPushRule,
        NewPatternedPushRule, NewPushRule, NewSimplePushRule, PushCondition,
        PushConditionPowerLevelsCtx, PushConditionRoomCtx, RuleKind, Ruleset, ScalarJsonValue,
    },
    serde::Raw,
    OwnedRoomId, OwnedUserId, UserId,
};
use serde_json::{json, value::RawValue, Value};

use crate::{opt_s, s, OpResult};

fn dump_rule(r: AnyPushRuleRef<'_>) -> Value {
    let mut v = json!({
        "id": r.rule_id(),
        "enabled": r.enabled(),
        "default": r.is_server_default(),
        "actions": serde_json::to_value(r.actions()).unwrap_or(Value::Null),
    });
    if let AnyPushRuleRef::Content(c) = r {
        v["pattern"] = json!(c.pattern);
    }
    v
}

fn dump_ruleset(rs: &Ruleset) -> Value {
    json!({
        "override": rs.override_.iter().map(|r| dump_rule(AnyPushRuleRef::Override(r))).collect::<Vec<_>>(),
        "content": rs.content.iter().map(|r| dump_rule(AnyPushRuleRef::Content(r))).collect::<Vec<_>>(),
        "room": rs.room.iter().map(|r| dump_rule(AnyPushRuleRef::Room(r))).collect::<Vec<_>>(),
        "sender": rs.sender.iter().map(|r| dump_rule(AnyPushRuleRef::Sender(r))).collect::<Vec<_>>(),
        "underride": rs.underride.iter().map(|r| dump_rule(AnyPushRuleRef::Underride(r))).collect::<Vec<_>>(),
        // the public iterator must list the same rules in kind order
        "iter": rs.iter().map(|r| r.rule_id().to_owned()).collect::<Vec<_>>(),
    })
}

fn actions_of(v: Option<&Value>) -> Result<Vec<Action>, String> {
    match v {
        Some(v) => serde_json::from_value(v.clone()).map_err(|e| format!("harness: actions: {e}")),
        None => Ok(vec![Action::Notify]),
    }
}

fn new_rule(op: &Value) -> Result<Result<NewPushRule, String>, String> {
    let kind = s(op, "kind")?;
    let id = s(op, "rule_id")?;
    let actions = actions_of(op.get("actions"))?;
    Ok(Ok(match kind {
        "override" => {
            NewPushRule::Override(NewConditionalPushRule::new(id.to_owned(), vec![], actions))
        }
        "underride" => {
            NewPushRule::Underride(NewConditionalPushRule::new(id.to_owned(), vec![], actions))
        }
        "content" => NewPushRule::Content(NewPatternedPushRule::new(
            id.to_owned(),
            opt_s(op, "pattern").unwrap_or("pat").to_owned(),
            actions,
        )),
        "room" => match OwnedRoomId::try_from(id) {
            Ok(rid) => NewPushRule::Room(NewSimplePushRule::new(rid, actions)),
            Err(e) => return Ok(Err(format!("not a room id: {e}"))),
        },
        "sender" => match OwnedUserId::try_from(id) {
            Ok(uid) => NewPushRule::Sender(NewSimplePushRule::new(uid, actions)),
            Err(e) => return Ok(Err(format!("not a user id: {e}"))),
        },
        _ => return Err(format!("harness: kind {kind}")),
    }))
}

fn ruleset_ops(cmd: &Value) -> OpResult {
    let user = <&UserId>::try_from(opt_s(cmd, "user_id").unwrap_or("@user:example.org"))
        .map_err(|e| format!("harness: user: {e}"))?;
    let mut rs = match s(cmd, "start")? {
        "empty" => Ruleset::new(),
        "default" => Ruleset::server_default(user),
        "json" => serde_json::from_str::<Ruleset>(s(cmd, "ruleset")?)
            .map_err(|e| format!("harness: ruleset: {e}"))?,
        x => return Err(format!("harness: start {x}")),
    };
    let only_last = crate::b(cmd, "only_last_dump");
    let ops = cmd.get("ops").and_then(Value::as_array).ok_or("harness: ops")?;
    let mut out = vec![];
    let initial = dump_ruleset(&rs);
    for (i, op) in ops.iter().enumerate() {
        let name = s(op, "op")?;
        let result: Result<(), String> = match name {
            "insert" => match new_rule(op)? {
                Ok(rule) => rs
                    .insert(rule, opt_s(op, "after"), opt_s(op, "before"))
                    .map_err(|e| e.to_string()),
                Err(e) => Err(format!("untypable rule id: {e}")),
            },
            "remove" => rs
                .remove(RuleKind::from(s(op, "kind")?), s(op, "rule_id")?)
                .map_err(|e| e.to_string()),
            "set_enabled" => rs
                .set_enabled(RuleKind::from(s(op, "kind")?), s(op, "rule_id")?, crate::b(op, "enabled"))
                .map_err(|e| e.to_string()),
            "set_actions" => rs
                .set_actions(
                    RuleKind::from(s(op, "kind")?),
                    s(op, "rule_id")?,
                    actions_of(op.get("actions"))?,
                )
                .map_err(|e| e.to_string()),
            x => return Err(format!("harness: op {x}")),
        };
        let got = s(op, "rule_id").ok().and_then(|id| {
            rs.get(RuleKind::from(opt_s(op, "kind").unwrap_or("override")), id).map(dump_rule)
        });
        let dump = if only_last && i + 1 != ops.len() { Value::Null } else { dump_ruleset(&rs) };
        out.push(json!({
            "result": match result { Ok(()) => json!({"ok": null}), Err(e) => json!({"err": e}) },
            "get": got,
            "dump": dump,
        }));
    }
    Ok(json!({"initial": initial, "steps": out}))
}

fn ctx_of(cmd: &Value) -> Result<PushConditionRoomCtx, String> {
    let c = cmd.get("ctx").ok_or("harness: ctx")?;
    let power_levels = match c.get("power_levels") {
        Some(Value::Null) | None => None,
        Some(p) => {
            let mut users = BTreeMap::new();
            if let Some(u) = p.get("users").and_then(Value::as_object) {
                for (k, v) in u {
                    users.insert(
                        OwnedUserId::try_from(k.as_str()).map_err(|e| format!("harness: pl user: {e}"))?,
                        Int::try_from(v.as_i64().ok_or("harness: pl int")?).map_err(|e| format!("harness: {e}"))?,
                    );
                }
            }
            let users_default = Int::try_from(p.get("users_default").and_then(Value::as_i64).unwrap_or(0))
                .map_err(|e| format!("harness: {e}"))?;
            let mut notifications = NotificationPowerLevels::default();
            if let Some(r) = p.get("notifications_room").and_then(Value::as_i64) {
                notifications.room = Int::try_from(r).map_err(|e| format!("harness: {e}"))?;
            }
            Some(PushConditionPowerLevelsCtx { users, users_default, notifications })
        }
    };
    Ok(PushConditionRoomCtx {
        room_id: OwnedRoomId::try_from(s(c, "room_id")?).map_err(|e| format!("harness: room: {e}"))?,
        member_count: UInt::try_from(c.get("member_count").and_then(Value::as_u64).unwrap_or(2))
            .map_err(|e| format!("harness: {e}"))?,
        user_id: OwnedUserId::try_from(s(c, "user_id")?).map_err(|e| format!("harness: user: {e}"))?,
        user_display_name: s(c, "user_display_name")?.to_owned(),
        power_levels,
    })
}

fn raw_of(text: &str) -> Result<Raw<Value>, String> {
    let rv: Box<RawValue> =
        serde_json::from_str(text).map_err(|e| format!("harness: event is not JSON: {e}"))?;
    Ok(Raw::from_json(rv))
}

fn dump_flat(v: Option<&FlattenedJsonValue>) -> Value {
    let scalar = |s: &ScalarJsonValue| match s {
        ScalarJsonValue::Null => Value::Null,
        ScalarJsonValue::Bool(b) => json!(b),
        ScalarJsonValue::Integer(i) => json!(i64::from(*i)),
        ScalarJsonValue::String(s) => json!(s),
    };
    match v {
        None => json!({"absent": true}),
        Some(FlattenedJsonValue::Null) => json!({"v": null}),
        Some(FlattenedJsonValue::Bool(b)) => json!({"v": b}),
        Some(FlattenedJsonValue::Integer(i)) => json!({"v": i64::from(*i)}),
        Some(FlattenedJsonValue::String(s)) => json!({"v": s}),
        Some(FlattenedJsonValue::Array(a)) => json!({"v": a.iter().map(scalar).collect::<Vec<_>>()}),
        Some(FlattenedJsonValue::EmptyObject) => json!({"empty_object": true}),
    }
}

fn matched(r: Option<AnyPushRuleRef<'_>>) -> Value {
    match r {
        None => Value::Null,
        Some(r) => {
            let kind = match r {
                AnyPushRuleRef::Override(_) => "override",
                AnyPushRuleRef::Content(_) => "content",
                AnyPushRuleRef::Room(_) => "room",
                AnyPushRuleRef::Sender(_) => "sender",
                AnyPushRuleRef::Underride(_) => "underride",
                _ => "unknown",
            };
            json!({"kind": kind, "rule_id": r.rule_id()})
        }
    }
}

pub fn dispatch(op: &str, cmd: &Value) -> Option<OpResult> {
    Some(match op {
        "ruleset_ops" => ruleset_ops(cmd),
        "push_eval" => (|| {
            let rs: Ruleset = serde_json::from_str(s(cmd, "ruleset")?)
                .map_err(|e| format!("harness: ruleset: {e}"))?;
            let ctx = ctx_of(cmd)?;
            let ev = raw_of(s(cmd, "event")?)?;
            let m = rs.get_match(&ev, &ctx);
            let actions = rs.get_actions(&ev, &ctx);
            Ok(json!({
                "match": matched(m),
                "actions": serde_json::to_value(actions).unwrap_or(Value::Null),
            }))
        })(),
        "condition_applies" => (|| {
            let cond: PushCondition = serde_json::from_str(s(cmd, "condition")?)
                .map_err(|e| format!("harness: condition: {e}"))?;
            let ctx = ctx_of(cmd)?;
            let ev = raw_of(s(cmd, "event")?)?;
            let flat = FlattenedJson::from_raw(&ev);
            Ok(json!(cond.applies(&flat, &ctx)))
        })(),
        "push_match_batch" => (|| {
            // items: [[pattern, text], ..]; mode: body | key | displayname
            let mode = s(cmd, "mode")?;
            let items = cmd.get("items").and_then(Value::as_array).ok_or("harness: items")?;
            let mut out = Vec::with_capacity(items.len());
            for it in items {
                let pattern = it.get(0).and_then(Value::as_str).ok_or("harness: pattern")?;
                let text = it.get(1).and_then(Value::as_str).ok_or("harness: text")?;
                let ctx = PushConditionRoomCtx {
                    room_id: OwnedRoomId::try_from("!r:example.org").unwrap(),
                    member_count: UInt::from(2u32),
                    user_id: OwnedUserId::try_from("@me:example.org").unwrap(),
                    user_display_name: if mode == "displayname" { pattern.to_owned() } else { "me".to_owned() },
                    power_levels: None,
                };
                let ev = json!({"sender": "@other:example.org", "type": "m.room.message",
                                "content": {"body": text, "k": text}});
                let raw: Raw<Value> = Raw::from_json(serde_json::value::to_raw_value(&ev).map_err(|e| e.to_string())?);
                let flat = FlattenedJson::from_raw(&raw);
                let cond = match mode {
                    "body" => PushCondition::EventMatch { key: "content.body".into(), pattern: pattern.into() },
                    "key" => PushCondition::EventMatch { key: "content.k".into(), pattern: pattern.into() },
                    "displayname" => PushCondition::ContainsDisplayName,
                    x => return Err(format!("harness: mode {x}")),
                };
                out.push(cond.applies(&flat, &ctx));
            }
            Ok(json!(out))
        })(),
        "flatten" => (|| {
            let ev = raw_of(s(cmd, "event")?)?;
            let flat = FlattenedJson::from_raw(&ev);
            let mut out = serde_json::Map::new();
            for p in cmd.get("paths").and_then(Value::as_array).ok_or("harness: paths")? {
                let p = p.as_str().ok_or("harness: path")?;
                let mut d = dump_flat(flat.get(p));
                d["get_str"] = json!(flat.get_str(p));
                out.insert(p.to_owned(), d);
            }
            Ok(Value::Object(out))
        })(),
        _ => return None,
    })
}
