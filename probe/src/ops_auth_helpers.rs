//! `RoomPowerLevels` helper predicates (C20).

use ruma_common::{push::{FlattenedJson, PushCondition, PushConditionPowerLevelsCtx, PushConditionRoomCtx}, serde::Raw, OwnedRoomId, UserId};
use ruma_events::{
    room::power_levels::{PowerLevelAction, PowerLevelUserAction, RoomPowerLevels, RoomPowerLevelsEventContent},
    MessageLikeEventType, StateEventType,
};
use serde_json::{json, Value};

use crate::{s, OpResult};

pub fn power_helpers(cmd: &Value) -> OpResult {
    // "redacted": the content is that of a redacted m.room.power_levels event
    let pl = if crate::b(cmd, "redacted") {
        match serde_json::from_str::<ruma_events::room::power_levels::RedactedRoomPowerLevelsEventContent>(s(cmd, "content")?) {
            Ok(c) => RoomPowerLevels::from(c),
            Err(e) => return Ok(json!({"content_err": e.to_string()})),
        }
    } else {
        let content: RoomPowerLevelsEventContent = match serde_json::from_str(s(cmd, "content")?) {
            Ok(c) => c,
            Err(e) => return Ok(json!({"content_err": e.to_string()})),
        };
        RoomPowerLevels::from(content)
    };
    let actor = <&UserId>::try_from(s(cmd, "actor")?).map_err(|e| format!("harness: actor: {e}"))?;
    let target = <&UserId>::try_from(s(cmd, "target")?).map_err(|e| format!("harness: target: {e}"))?;
    let mut msg = serde_json::Map::new();
    for t in cmd.get("message_types").and_then(Value::as_array).into_iter().flatten() {
        let t = t.as_str().unwrap_or("");
        let ty = MessageLikeEventType::from(t);
        msg.insert(t.to_owned(), json!({
            "can": pl.user_can_send_message(actor, ty.clone()),
            "level": i64::from(pl.for_message(ty.clone())),
            "do": pl.user_can_do(actor, PowerLevelAction::SendMessage(ty)),
        }));
    }
    let mut st = serde_json::Map::new();
    for t in cmd.get("state_types").and_then(Value::as_array).into_iter().flatten() {
        let t = t.as_str().unwrap_or("");
        let ty = StateEventType::from(t);
        st.insert(t.to_owned(), json!({
            "can": pl.user_can_send_state(actor, ty.clone()),
            "level": i64::from(pl.for_state(ty.clone())),
            "do": pl.user_can_do(actor, PowerLevelAction::SendState(ty)),
        }));
    }
    // the notification push condition with the context derived from the same power levels
    let ctx = PushConditionRoomCtx {
        room_id: OwnedRoomId::try_from("!r:example.org").unwrap(),
        member_count: js_int::uint!(3),
        user_id: target.to_owned(),
        user_display_name: "t".to_owned(),
        power_levels: Some(PushConditionPowerLevelsCtx::from(pl.clone())),
    };
    let ev = json!({"sender": actor.as_str(), "type": "m.room.message", "content": {"body": "@room"}});
    let raw: Raw<Value> = Raw::from_json(serde_json::value::to_raw_value(&ev).unwrap());
    let notif = PushCondition::SenderNotificationPermission { key: "room".into() }
        .applies(&FlattenedJson::from_raw(&raw), &ctx);
    Ok(json!({
        "for_user_actor": i64::from(pl.for_user(actor)),
        "for_user_target": i64::from(pl.for_user(target)),
        "can_ban": pl.user_can_ban(actor),
        "can_ban_user": pl.user_can_ban_user(actor, target),
        "can_unban": pl.user_can_unban(actor),
        "can_unban_user": pl.user_can_unban_user(actor, target),
        "can_invite": pl.user_can_invite(actor),
        "can_kick": pl.user_can_kick(actor),
        "can_kick_user": pl.user_can_kick_user(actor, target),
        "can_redact_own": pl.user_can_redact_own_event(actor),
        "can_redact_other": pl.user_can_redact_event_of_other(actor),
        "can_notify_room": pl.user_can_trigger_room_notification(actor),
        "can_change_pl": pl.user_can_change_user_power_level(actor, target),
        "do_ban": pl.user_can_do_to_user(actor, target, PowerLevelUserAction::Ban),
        "do_unban": pl.user_can_do_to_user(actor, target, PowerLevelUserAction::Unban),
        "do_kick": pl.user_can_do_to_user(actor, target, PowerLevelUserAction::Kick),
        "do_invite": pl.user_can_do_to_user(actor, target, PowerLevelUserAction::Invite),
        "do_change_pl": pl.user_can_do_to_user(actor, target, PowerLevelUserAction::ChangePowerLevel),
        "push_condition_room": notif,
        "message": msg,
        "state": st,
    }))
}
