//! Probe worker: thin adapters around ruma's public entry points.
//!
//! Protocol: one JSON object per line on stdin (`{"id":N,"op":"..",...}`), one reply per line on
//! stdout: `{"id":N,"ok":..}` | `{"id":N,"err":".."}` | `{"id":N,"panic":"..","at":"file:line:col"}`.
//! No oracle logic lives here: every op returns what ruma returned.
//!
//! `probe --in cmds.jsonl --out replies.jsonl` runs a recorded command file (used under Miri,
//! valgrind and for replays).

use std::{
    cell::RefCell,
    io::{BufRead, BufReader, BufWriter, Write},
    panic::{catch_unwind, AssertUnwindSafe},
};

use serde_json::{json, Value};

thread_local! {
    static LAST_PANIC_AT: RefCell<String> = const { RefCell::new(String::new()) };
}

pub type OpResult = Result<Value, String>;

pub fn s<'a>(cmd: &'a Value, key: &str) -> Result<&'a str, String> {
    cmd.get(key).and_then(Value::as_str).ok_or_else(|| format!("harness: missing string arg {key:?}"))
}

pub fn opt_s<'a>(cmd: &'a Value, key: &str) -> Option<&'a str> {
    cmd.get(key).and_then(Value::as_str)
}

pub fn u(cmd: &Value, key: &str) -> Result<u64, String> {
    cmd.get(key).and_then(Value::as_u64).ok_or_else(|| format!("harness: missing uint arg {key:?}"))
}

pub fn b(cmd: &Value, key: &str) -> bool {
    cmd.get(key).and_then(Value::as_bool).unwrap_or(false)
}

fn handle_line(line: &str, dispatch: fn(&Value) -> OpResult) -> Value {
    let cmd: Value = match serde_json::from_str(line) {
        Ok(v) => v,
        Err(e) => return json!({"id": null, "harness_error": format!("bad command: {e}")}),
    };
    let id = cmd.get("id").cloned().unwrap_or(Value::Null);
    LAST_PANIC_AT.with(|l| l.borrow_mut().clear());
    match catch_unwind(AssertUnwindSafe(|| dispatch(&cmd))) {
        Ok(Ok(v)) => json!({"id": id, "ok": v}),
        Ok(Err(e)) => {
            // "tolerant" commands (fuzzing) report unusable arguments as ordinary errors
            let tolerant = cmd.get("tolerant").and_then(Value::as_bool).unwrap_or(false);
            if let (Some(h), false) = (e.strip_prefix("harness: "), tolerant) {
                json!({"id": id, "harness_error": h})
            } else {
                json!({"id": id, "err": e})
            }
        }
        Err(payload) => {
            let msg = if let Some(s) = payload.downcast_ref::<&str>() {
                (*s).to_owned()
            } else if let Some(s) = payload.downcast_ref::<String>() {
                s.clone()
            } else {
                "non-string panic payload".to_owned()
            };
            let at = LAST_PANIC_AT.with(|l| l.borrow().clone());
            json!({"id": id, "panic": msg, "at": at})
        }
    }
}

fn run(input: Box<dyn BufRead + Send>, output: Box<dyn Write + Send>, dispatch: fn(&Value) -> OpResult) {
    let mut out = BufWriter::new(output);
    for line in input.lines() {
        let Ok(line) = line else { break };
        if line.trim().is_empty() {
            continue;
        }
        if line.trim() == "FLUSH" {
            let _ = out.flush();
            continue;
        }
        let reply = handle_line(&line, dispatch);
        let _ = serde_json::to_writer(&mut out, &reply);
        let _ = out.write_all(b"\n");
        // Flush after every reply: when an op aborts the process, every earlier reply has
        // already reached the supervisor, so the death is attributed to the right command.
        let _ = out.flush();
    }
    let _ = out.flush();
}

pub fn run_main(dispatch: fn(&Value) -> OpResult) {
    std::panic::set_hook(Box::new(|info| {
        let at = info
            .location()
            .map(|l| format!("{}:{}:{}", l.file(), l.line(), l.column()))
            .unwrap_or_default();
        LAST_PANIC_AT.with(|l| *l.borrow_mut() = at);
    }));

    let args: Vec<String> = std::env::args().collect();
    let mut in_path = None;
    let mut out_path = None;
    let mut stack_kib: usize = 2048;
    let mut i = 1;
    while i < args.len() {
        match args[i].as_str() {
            "--in" => {
                in_path = args.get(i + 1).cloned();
                i += 1;
            }
            "--out" => {
                out_path = args.get(i + 1).cloned();
                i += 1;
            }
            "--stack-kib" => {
                stack_kib = args.get(i + 1).and_then(|s| s.parse().ok()).unwrap_or(2048);
                i += 1;
            }
            _ => {}
        }
        i += 1;
    }

    let input: Box<dyn BufRead + Send> = match in_path {
        Some(p) => Box::new(BufReader::new(std::fs::File::open(p).expect("open --in"))),
        None => Box::new(BufReader::new(std::io::stdin())),
    };
    let output: Box<dyn Write + Send> = match out_path {
        Some(p) => Box::new(std::fs::File::create(p).expect("create --out")),
        None => Box::new(std::io::stdout()),
    };

    // All ops run on a thread with a 2 MiB stack: Rust's default for spawned threads, i.e. what a
    // homeserver's or client's worker thread has.
    let h = std::thread::Builder::new()
        .stack_size(stack_kib * 1024)
        .spawn(move || run(input, output, dispatch))
        .expect("spawn");
    let _ = h.join();
}
