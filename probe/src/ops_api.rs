use serde_json::Value;

use crate::OpResult;

pub fn dispatch(_op: &str, _cmd: &Value) -> Option<OpResult> {
    None
}
