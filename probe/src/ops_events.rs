//! Adapters for typed event (de)serialization and `Raw` (C18).

use ruma_common::serde::Raw;
use ruma_events::{
    AnyEphemeralRoomEvent, AnyEphemeralRoomEventContent, AnyGlobalAccountDataEvent,
    AnyGlobalAccountDataEventContent, AnyMessageLikeEvent, AnyMessageLikeEventContent,
    AnyRoomAccountDataEvent, AnyRoomAccountDataEventContent, AnyStateEvent, AnyStateEventContent,
    AnyStrippedStateEvent, AnySyncEphemeralRoomEvent, AnySyncMessageLikeEvent, AnySyncStateEvent,
    AnySyncTimelineEvent, AnyTimelineEvent, AnyToDeviceEvent, AnyToDeviceEventContent,
    EventContentFromType,
};
use serde_json::{json, value::RawValue, Value};

use crate::{s, OpResult};

/// Leading identifiers of the Debug form, e.g. `State(RoomMember(Original(OriginalStateEvent`.
fn variant_path<T: std::fmt::Debug>(v: &T) -> String {
    let d = format!("{v:?}");
    let end = d.find(" {").unwrap_or(d.len()).min(200);
    let mut end = end;
    while !d.is_char_boundary(end) {
        end -= 1;
    }
    d[..end].to_owned()
}

macro_rules! de_case {
    ($ty:ty, $text:expr, |$ev:ident| $dump:expr) => {
        match serde_json::from_str::<$ty>($text) {
            Ok($ev) => {
                let mut d: Value = $dump;
                d["variant"] = json!(variant_path(&$ev));
                json!({"ok": d})
            }
            Err(e) => json!({"err": e.to_string()}),
        }
    };
}

fn event_de(cmd: &Value) -> OpResult {
    let text = s(cmd, "text")?;
    Ok(match s(cmd, "enum")? {
        "AnyTimelineEvent" => de_case!(AnyTimelineEvent, text, |ev| json!({
            "event_type": ev.event_type().to_string(), "sender": ev.sender().as_str(),
            "event_id": ev.event_id().as_str(), "origin_server_ts": u64::from(ev.origin_server_ts().get()),
            "room_id": ev.room_id().as_str(),
            "state_key": match &ev { AnyTimelineEvent::State(s) => Some(s.state_key().to_owned()), _ => None },
        })),
        "AnySyncTimelineEvent" => de_case!(AnySyncTimelineEvent, text, |ev| json!({
            "event_type": ev.event_type().to_string(), "sender": ev.sender().as_str(),
            "event_id": ev.event_id().as_str(), "origin_server_ts": u64::from(ev.origin_server_ts().get()),
            "state_key": match &ev { AnySyncTimelineEvent::State(s) => Some(s.state_key().to_owned()), _ => None },
        })),
        "AnyStateEvent" => de_case!(AnyStateEvent, text, |ev| json!({
            "event_type": ev.event_type().to_string(), "sender": ev.sender().as_str(),
            "event_id": ev.event_id().as_str(), "origin_server_ts": u64::from(ev.origin_server_ts().get()),
            "room_id": ev.room_id().as_str(), "state_key": ev.state_key(),
        })),
        "AnySyncStateEvent" => de_case!(AnySyncStateEvent, text, |ev| json!({
            "event_type": ev.event_type().to_string(), "sender": ev.sender().as_str(),
            "event_id": ev.event_id().as_str(), "origin_server_ts": u64::from(ev.origin_server_ts().get()),
            "state_key": ev.state_key(),
        })),
        "AnyStrippedStateEvent" => de_case!(AnyStrippedStateEvent, text, |ev| json!({
            "event_type": ev.event_type().to_string(), "sender": ev.sender().as_str(),
            "state_key": ev.state_key(),
        })),
        "AnyMessageLikeEvent" => de_case!(AnyMessageLikeEvent, text, |ev| json!({
            "event_type": ev.event_type().to_string(), "sender": ev.sender().as_str(),
            "event_id": ev.event_id().as_str(), "origin_server_ts": u64::from(ev.origin_server_ts().get()),
            "room_id": ev.room_id().as_str(), "is_redacted": ev.is_redacted(),
        })),
        "AnySyncMessageLikeEvent" => de_case!(AnySyncMessageLikeEvent, text, |ev| json!({
            "event_type": ev.event_type().to_string(), "sender": ev.sender().as_str(),
            "event_id": ev.event_id().as_str(), "origin_server_ts": u64::from(ev.origin_server_ts().get()),
            "is_redacted": ev.is_redacted(),
        })),
        "AnyToDeviceEvent" => de_case!(AnyToDeviceEvent, text, |ev| json!({
            "event_type": ev.event_type().to_string(), "sender": ev.sender().as_str(),
        })),
        "AnyEphemeralRoomEvent" => de_case!(AnyEphemeralRoomEvent, text, |ev| json!({
            "event_type": ev.event_type().to_string(), "room_id": ev.room_id().as_str(),
        })),
        "AnySyncEphemeralRoomEvent" => de_case!(AnySyncEphemeralRoomEvent, text, |ev| json!({
            "event_type": ev.event_type().to_string(),
        })),
        "AnyGlobalAccountDataEvent" => de_case!(AnyGlobalAccountDataEvent, text, |ev| json!({
            "event_type": ev.event_type().to_string(),
        })),
        "AnyRoomAccountDataEvent" => de_case!(AnyRoomAccountDataEvent, text, |ev| json!({
            "event_type": ev.event_type().to_string(),
        })),
        x => return Err(format!("harness: enum {x}")),
    })
}

macro_rules! roundtrip {
    ($ty:ty, $ev_type:expr, $text:expr) => {{
        let raw: Box<RawValue> =
            serde_json::from_str($text).map_err(|e| format!("harness: content json: {e}"))?;
        match <$ty>::from_parts($ev_type, &raw) {
            Err(e) => json!({"err1": e.to_string()}),
            Ok(c1) => {
                let v1 = variant_path(&c1);
                match serde_json::to_string(&c1) {
                    Err(e) => json!({"variant": v1, "ser_err": e.to_string()}),
                    Ok(s1) => {
                        let raw1: Box<RawValue> = serde_json::from_str(&s1)
                            .map_err(|e| format!("output is not JSON: {e}"))?;
                        match <$ty>::from_parts($ev_type, &raw1) {
                            Err(e) => json!({"variant": v1, "s1": s1, "err2": e.to_string()}),
                            Ok(c2) => json!({
                                "variant": v1, "s1": s1,
                                "s2": serde_json::to_string(&c2).unwrap_or_else(|e| format!("<<{e}>>")),
                                "variant2": variant_path(&c2),
                            }),
                        }
                    }
                }
            }
        }
    }};
}

fn content_roundtrip(cmd: &Value) -> OpResult {
    let ev_type = s(cmd, "ev_type")?;
    let text = s(cmd, "content")?;
    Ok(match s(cmd, "kind")? {
        "message_like" => roundtrip!(AnyMessageLikeEventContent, ev_type, text),
        "state" => roundtrip!(AnyStateEventContent, ev_type, text),
        "to_device" => roundtrip!(AnyToDeviceEventContent, ev_type, text),
        "ephemeral" => roundtrip!(AnyEphemeralRoomEventContent, ev_type, text),
        "global_account_data" => roundtrip!(AnyGlobalAccountDataEventContent, ev_type, text),
        "room_account_data" => roundtrip!(AnyRoomAccountDataEventContent, ev_type, text),
        x => return Err(format!("harness: kind {x}")),
    })
}

/// Redacted content types that keep fields: JSON -> typed -> JSON -> typed -> JSON.
fn redacted_content_roundtrip(cmd: &Value) -> OpResult {
    use ruma_events::room::{
        aliases::RedactedRoomAliasesEventContent, create::RedactedRoomCreateEventContent,
        history_visibility::RedactedRoomHistoryVisibilityEventContent, join_rules::RedactedRoomJoinRulesEventContent,
        member::RedactedRoomMemberEventContent, power_levels::RedactedRoomPowerLevelsEventContent,
        redaction::RedactedRoomRedactionEventContent,
    };
    macro_rules! rt {
        ($t:ty, $text:expr) => {{
            match serde_json::from_str::<$t>($text) {
                Err(e) => json!({"de_err": e.to_string()}),
                Ok(c1) => {
                    let s1 = serde_json::to_string(&c1).map_err(|e| e.to_string())?;
                    match serde_json::from_str::<$t>(&s1) {
                        Err(e) => json!({"s1": s1, "de2_err": e.to_string()}),
                        Ok(c2) => {
                            let s2 = serde_json::to_string(&c2).map_err(|e| e.to_string())?;
                            json!({"s1": s1, "s2": s2, "debug_equal": format!("{c1:?}") == format!("{c2:?}")})
                        }
                    }
                }
            }
        }};
    }
    let text = s(cmd, "content")?;
    Ok(match s(cmd, "ev_type")? {
        "m.room.power_levels" => rt!(RedactedRoomPowerLevelsEventContent, text),
        "m.room.member" => rt!(RedactedRoomMemberEventContent, text),
        "m.room.create" => rt!(RedactedRoomCreateEventContent, text),
        "m.room.join_rules" => rt!(RedactedRoomJoinRulesEventContent, text),
        "m.room.history_visibility" => rt!(RedactedRoomHistoryVisibilityEventContent, text),
        "m.room.aliases" => rt!(RedactedRoomAliasesEventContent, text),
        "m.room.redaction" => rt!(RedactedRoomRedactionEventContent, text),
        _ => json!({"unsupported": true}),
    })
}

fn raw_ops(cmd: &Value) -> OpResult {
    let text = s(cmd, "text")?;
    let raw = match Raw::<Value>::from_json_string(text.to_owned()) {
        Ok(r) => r,
        Err(e) => return Ok(json!({"from_json_string_err": e.to_string()})),
    };
    let mut fields = serde_json::Map::new();
    for f in cmd.get("fields").and_then(Value::as_array).ok_or("harness: fields")? {
        let f = f.as_str().ok_or("harness: field")?;
        let got = raw.get_field::<Box<RawValue>>(f);
        let typed_str = raw.get_field::<String>(f);
        let typed_int = raw.get_field::<i64>(f);
        fields.insert(
            f.to_owned(),
            json!({
                "raw": match got { Ok(Some(v)) => json!({"ok": v.get()}), Ok(None) => json!({"none": true}), Err(e) => json!({"err": e.to_string()}) },
                "as_string": match typed_str { Ok(Some(v)) => json!({"ok": v}), Ok(None) => json!({"none": true}), Err(e) => json!({"err": e.to_string()}) },
                "as_i64": match typed_int { Ok(Some(v)) => json!({"ok": v}), Ok(None) => json!({"none": true}), Err(e) => json!({"err": e.to_string()}) },
            }),
        );
    }
    // cast_ref to a typed Raw and back: the text must stay the same
    let cast: &Raw<AnySyncTimelineEvent> = raw.cast_ref();
    let cast_json = cast.json().get().to_owned();
    let cloned = raw.clone();
    Ok(json!({
        "json": raw.json().get(),
        "cast_json": cast_json,
        "clone_json": cloned.json().get(),
        "deserialize": match raw.deserialize() { Ok(v) => json!({"ok": v}), Err(e) => json!({"err": e.to_string()}) },
        "into_json": cloned.into_json().get(),
        "fields": fields,
    }))
}

pub fn dispatch(op: &str, cmd: &Value) -> Option<OpResult> {
    Some(match op {
        "event_de" => event_de(cmd),
        "content_roundtrip" => content_roundtrip(cmd),
        "redacted_content_roundtrip" => redacted_content_roundtrip(cmd),
        "raw_ops" => raw_ops(cmd),
        _ => return None,
    })
}
