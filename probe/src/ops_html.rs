//! Adapters for HTML sanitizing (C14, C15).

use std::{
    collections::HashSet,
    sync::{Mutex, OnceLock},
};

use ruma_html::{
    sanitize_html, ElementAttributesReplacement, ElementAttributesSchemes, Html,
    HtmlSanitizerMode, ListBehavior, NameReplacement, NodeData, NodeRef, PropertiesNames,
    RemoveReplyFallback, SanitizerConfig,
};
use serde_json::{json, Value};

use crate::{s, OpResult};

/// The builder API takes `&'static str`: intern (leak once per distinct string).
fn intern(x: &str) -> &'static str {
    static SET: OnceLock<Mutex<HashSet<&'static str>>> = OnceLock::new();
    let mut set = SET.get_or_init(|| Mutex::new(HashSet::new())).lock().unwrap();
    if let Some(v) = set.get(x) {
        return v;
    }
    let leaked: &'static str = Box::leak(x.to_owned().into_boxed_str());
    set.insert(leaked);
    leaked
}

fn strs(v: &Value) -> Vec<&'static str> {
    v.as_array().map(|a| a.iter().filter_map(Value::as_str).map(intern).collect()).unwrap_or_default()
}

fn behavior(v: &Value) -> ListBehavior {
    if v.get("behavior").and_then(Value::as_str) == Some("override") {
        ListBehavior::Override
    } else {
        ListBehavior::Add
    }
}

/// `{el: [names]}` -> leaked PropertiesNames
fn props(v: &Value) -> Vec<PropertiesNames<'static>> {
    let mut out = vec![];
    if let Some(m) = v.as_object() {
        for (el, names) in m {
            let names: &'static [&'static str] = Box::leak(strs(names).into_boxed_slice());
            out.push(PropertiesNames { parent: intern(el), properties: names });
        }
    }
    out
}

/// `{el: {attr: [schemes]}}`
fn schemes(v: &Value) -> Vec<ElementAttributesSchemes<'static>> {
    let mut out = vec![];
    if let Some(m) = v.as_object() {
        for (el, attrs) in m {
            let p: &'static [PropertiesNames<'static>] = Box::leak(props(attrs).into_boxed_slice());
            out.push(ElementAttributesSchemes { element: intern(el), attr_schemes: p });
        }
    }
    out
}

fn config_of(c: &Value) -> Result<SanitizerConfig, String> {
    let mut cfg = match c.get("mode").and_then(Value::as_str) {
        Some("strict") => SanitizerConfig::strict(),
        Some("compat") => SanitizerConfig::compat(),
        None => SanitizerConfig::new(),
        Some(x) => return Err(format!("harness: mode {x}")),
    };
    // Builder calls are applied in the order given by "order" (then the remaining keys in a fixed
    // order): every call sets its own part of the configuration, so the result must not depend on it.
    const KEYS: [&str; 14] = ["remove_reply_fallback", "allow_elements", "remove_elements", "ignore_elements",
        "replace_elements", "replace_attrs", "allow_attrs", "remove_attrs", "allow_schemes", "deny_schemes",
        "allow_classes", "remove_classes", "max_depth", "_end"];
    let mut order: Vec<String> = c
        .get("order")
        .and_then(Value::as_array)
        .map(|a| a.iter().filter_map(|x| x.as_str().map(str::to_owned)).collect())
        .unwrap_or_default();
    for k in KEYS {
        if !order.iter().any(|o| o == k) {
            order.push(k.to_owned());
        }
    }
    for key in &order {
        cfg = apply_builder(cfg, c, key)?;
    }
    Ok(cfg)
}

fn apply_builder(mut cfg: SanitizerConfig, c: &Value, key: &str) -> Result<SanitizerConfig, String> {
    if key == "remove_reply_fallback" {
        if crate::b(c, "remove_reply_fallback") {
            cfg = cfg.remove_reply_fallback();
        }
        return Ok(cfg);
    }
    if key == "max_depth" {
        if let Some(d) = c.get("max_depth").and_then(Value::as_u64) {
            cfg = cfg.max_depth(d as u32);
        }
        return Ok(cfg);
    }
    let Some(v) = c.get(key) else { return Ok(cfg) };
    match key {
        "allow_elements" => {
            cfg = cfg.allow_elements(strs(&v["list"]), behavior(v));
        }
        "remove_elements" => {
            cfg = cfg.remove_elements(strs(v));
        }
        "ignore_elements" => {
            cfg = cfg.ignore_elements(strs(v));
        }
        "replace_elements" => {
            let reps: Vec<NameReplacement> = v["list"]
                .as_object()
                .map(|m| {
                    m.iter()
                        .map(|(k, n)| NameReplacement { old: intern(k), new: intern(n.as_str().unwrap_or("span")) })
                        .collect()
                })
                .unwrap_or_default();
            cfg = cfg.replace_elements(reps, behavior(v));
        }
        "replace_attrs" => {
            let mut reps = vec![];
            if let Some(m) = v["list"].as_object() {
                for (el, r) in m {
                    let rs: Vec<NameReplacement> = r
                        .as_object()
                        .map(|m| {
                            m.iter()
                                .map(|(k, n)| NameReplacement { old: intern(k), new: intern(n.as_str().unwrap_or("x")) })
                                .collect()
                        })
                        .unwrap_or_default();
                    let rs: &'static [NameReplacement] = Box::leak(rs.into_boxed_slice());
                    reps.push(ElementAttributesReplacement { element: intern(el), replacements: rs });
                }
            }
            cfg = cfg.replace_attributes(reps, behavior(v));
        }
        "allow_attrs" => {
            cfg = cfg.allow_attributes(props(&v["list"]), behavior(v));
        }
        "remove_attrs" => {
            cfg = cfg.remove_attributes(props(v));
        }
        "allow_schemes" => {
            cfg = cfg.allow_schemes(schemes(&v["list"]), behavior(v));
        }
        "deny_schemes" => {
            cfg = cfg.deny_schemes(schemes(v));
        }
        "allow_classes" => {
            cfg = cfg.allow_classes(props(&v["list"]), behavior(v));
        }
        "remove_classes" => {
            cfg = cfg.remove_classes(props(v));
        }
        _ => {}
    }
    Ok(cfg)
}

/// Flat pre-order dump: [depth, "e", name, [[attr, value]..]] | [depth, "t", text] | [depth, "o"]
/// (iterative: no recursion in the adapter itself)
fn dump(html: &Html) -> Value {
    let mut out = vec![];
    let mut stack: Vec<(NodeRef, usize)> = vec![];
    let top: Vec<NodeRef> = html.children().collect();
    for c in top.into_iter().rev() {
        stack.push((c, 0));
    }
    while let Some((node, depth)) = stack.pop() {
        match node.data() {
            NodeData::Element(e) => {
                let attrs: Vec<Value> = e
                    .attrs
                    .borrow()
                    .iter()
                    .map(|a| json!([a.name.local.as_ref(), a.value.as_ref()]))
                    .collect();
                let prefix = e.name.prefix.as_ref().map(|p| p.as_ref().to_owned());
                out.push(json!([depth, "e", e.name.local.as_ref(), attrs, e.name.ns.as_ref(), prefix]));
            }
            NodeData::Text(t) => out.push(json!([depth, "t", t.borrow().as_ref()])),
            _ => out.push(json!([depth, "o"])),
        }
        let kids: Vec<NodeRef> = node.children().collect();
        for c in kids.into_iter().rev() {
            stack.push((c, depth + 1));
        }
    }
    Value::Array(out)
}

pub fn dispatch(op: &str, cmd: &Value) -> Option<OpResult> {
    Some(match op {
        "sanitize" => (|| {
            let input = s(cmd, "html")?;
            let cfg = config_of(cmd.get("config").ok_or("harness: config")?)?;
            let want_trees = !crate::b(cmd, "no_trees");
            let html = Html::parse(input);
            let in_tree = if want_trees { dump(&html) } else { Value::Null };
            let in_reser = html.to_string();
            html.sanitize_with(&cfg);
            let san_tree = if want_trees { dump(&html) } else { Value::Null };
            let out = html.to_string();
            // the same document object sanitized a second time
            html.sanitize_with(&cfg);
            let same_object_twice = html.to_string();
            // output parsed again
            let re = Html::parse(&out);
            let out_tree = if want_trees { dump(&re) } else { Value::Null };
            let reser = re.to_string();
            re.sanitize_with(&cfg);
            let twice = re.to_string();
            Ok(json!({
                "out": out, "in_tree": in_tree, "in_reser": in_reser, "san_tree": san_tree,
                "out_tree": out_tree, "reser": reser, "twice": twice,
                "same_object_twice": same_object_twice,
            }))
        })(),
        "sanitize_html" => (|| {
            let input = s(cmd, "html")?;
            let mode = match s(cmd, "mode")? {
                "strict" => HtmlSanitizerMode::Strict,
                _ => HtmlSanitizerMode::Compat,
            };
            let rf = if crate::b(cmd, "remove_reply_fallback") {
                RemoveReplyFallback::Yes
            } else {
                RemoveReplyFallback::No
            };
            let out = sanitize_html(input, mode, rf);
            let fallback_only = ruma_html::remove_html_reply_fallback(input);
            Ok(json!({"out": out, "remove_html_reply_fallback": fallback_only}))
        })(),
        "html_parse" => (|| {
            let html = Html::parse(s(cmd, "html")?);
            Ok(json!({"tree": dump(&html), "reser": html.to_string()}))
        })(),
        _ => return None,
    })
}
