//! Adapters for string-valued protocol enums (C19).

use std::fmt::Display;

use serde::{de::DeserializeOwned, Serialize};
use serde_json::{json, Value};

use crate::{s, OpResult};

/// Conversions of every input string + pairwise equality (+ ordering when `cmp` is given).
fn conv<T>(
    strings: &[String],
    from: impl Fn(&str) -> T,
    from_owned: impl Fn(String) -> T,
    to: impl Fn(&T) -> String,
    cmp: Option<&dyn Fn(&T, &T) -> i8>,
) -> Value
where
    T: Display + Serialize + DeserializeOwned + PartialEq,
{
    let vals: Vec<T> = strings.iter().map(|x| from(x)).collect();
    let items: Vec<Value> = strings
        .iter()
        .zip(&vals)
        .map(|(st, v)| {
            let text = to(v);
            let js = serde_json::to_string(v).unwrap_or_else(|e| format!("<<ser error {e}>>"));
            let de = serde_json::from_str::<T>(&serde_json::to_string(st).unwrap());
            json!({
                "as_str": text,
                "display": v.to_string(),
                "json": js,
                "de": match &de { Ok(d) => json!({"ok": to(d)}), Err(e) => json!({"err": e.to_string()}) },
                "de_eq_from": de.as_ref().map(|d| d == v).unwrap_or(false),
                "owned_as_str": to(&from_owned(st.clone())),
                "owned_eq": from_owned(st.clone()) == *v,
                "idem": to(&from(&text)),
                "idem_eq": from(&text) == *v,
            })
        })
        .collect();
    let n = vals.len().min(40);
    let eq: Vec<Vec<bool>> =
        (0..n).map(|i| (0..n).map(|j| vals[i] == vals[j]).collect()).collect();
    let ord: Option<Vec<Vec<i8>>> =
        cmp.map(|c| (0..n).map(|i| (0..n).map(|j| c(&vals[i], &vals[j])).collect()).collect());
    json!({"items": items, "eq": eq, "ord": ord})
}

fn ord_of<T: Ord>(a: &T, b: &T) -> i8 {
    match a.cmp(b) {
        std::cmp::Ordering::Less => -1,
        std::cmp::Ordering::Equal => 0,
        std::cmp::Ordering::Greater => 1,
    }
}

macro_rules! se {
    ($strings:expr, $ty:ty) => {
        conv::<$ty>($strings, |x| <$ty>::from(x), |x: String| <$ty>::from(x), |v| { let r: &str = v.as_ref(); r.to_owned() }, None)
    };
    ($strings:expr, $ty:ty, ord) => {
        conv::<$ty>($strings, |x| <$ty>::from(x), |x: String| <$ty>::from(x), |v| { let r: &str = v.as_ref(); r.to_owned() }, Some(&ord_of::<$ty>))
    };
}

macro_rules! et {
    ($strings:expr, $ty:ty) => {
        conv::<$ty>($strings, |x| <$ty>::from(x), |x: String| <$ty>::from(x), |v| v.to_string(), Some(&ord_of::<$ty>))
    };
}

/// Listed unit variants of an enum: what each one prints / serializes to, and whether converting
/// that string back gives the same variant.
macro_rules! variants {
    ($ty:ty; $($v:ident),+) => {{
        #[allow(deprecated)]
        let vs: Vec<(&str, $ty)> = vec![$((stringify!($v), <$ty>::$v)),+];
        Value::Array(vs.iter().map(|(name, v)| {
            let st: &str = v.as_ref();
            json!({
                "variant": name, "as_str": st, "display": v.to_string(),
                "json": serde_json::to_string(v).unwrap_or_default(),
                "from_eq": <$ty>::from(st) == *v,
                "de_eq": serde_json::from_str::<$ty>(&serde_json::to_string(st).unwrap()).map(|d| d == *v).unwrap_or(false),
            })
        }).collect())
    }};
}

fn enum_conv(cmd: &Value) -> OpResult {
    use ruma_common as c;
    use ruma_events as e;
    let name = s(cmd, "enum")?;
    let strings: Vec<String> = cmd
        .get("strings")
        .and_then(Value::as_array)
        .ok_or("harness: strings")?
        .iter()
        .filter_map(|v| v.as_str().map(str::to_owned))
        .collect();
    let st = &strings[..];
    let mut out = match name {
        "MembershipState" => se!(st, e::room::member::MembershipState),
        "StateResJoinRule" => se!(st, ruma_state_res::events::JoinRule),
        "HistoryVisibility" => se!(st, e::room::history_visibility::HistoryVisibility),
        "GuestAccess" => se!(st, e::room::guest_access::GuestAccess),
        "MessageFormat" => se!(st, e::room::message::MessageFormat),
        "RelationType" => se!(st, e::relation::RelationType),
        "ReceiptType" => se!(st, e::receipt::ReceiptType, ord),
        "VerificationMethod" => se!(st, e::key::verification::VerificationMethod),
        "HashAlgorithm" => se!(st, e::key::verification::HashAlgorithm),
        "KeyAgreementProtocol" => se!(st, e::key::verification::KeyAgreementProtocol),
        "MessageAuthenticationCode" => se!(st, e::key::verification::MessageAuthenticationCode),
        "ShortAuthenticationString" => se!(st, e::key::verification::ShortAuthenticationString),
        "CancelCode" => se!(st, e::key::verification::cancel::CancelCode),
        "RoomKeyRequestAction" => se!(st, e::room_key_request::Action),
        "SecretName" => se!(st, e::secret::request::SecretName),
        "PolicyRecommendation" => se!(st, e::policy::rule::Recommendation),
        "CallHangupReason" => se!(st, e::call::hangup::Reason),
        "StreamPurpose" => se!(st, e::call::StreamPurpose),
        "ServerNoticeType" => se!(st, e::room::message::ServerNoticeType),
        "LimitType" => se!(st, e::room::message::LimitType),
        "PresenceState" => se!(st, c::presence::PresenceState),
        "PushFormat" => se!(st, c::push::PushFormat),
        "RuleKind" => se!(st, c::push::RuleKind, ord),
        "PredefinedOverrideRuleId" => se!(st, c::push::PredefinedOverrideRuleId),
        "PredefinedUnderrideRuleId" => se!(st, c::push::PredefinedUnderrideRuleId),
        "PredefinedContentRuleId" => se!(st, c::push::PredefinedContentRuleId),
        "RoomType" => se!(st, c::room::RoomType),
        "Medium" => se!(st, c::thirdparty::Medium),
        "MediaMethod" => se!(st, c::media::Method, ord),
        "PublicRoomJoinRule" => se!(st, c::directory::PublicRoomJoinRule),
        "SpaceRoomJoinRule" => se!(st, c::space::SpaceRoomJoinRule),
        "KeyUsage" => se!(st, c::encryption::KeyUsage),
        "TokenType" => se!(st, c::authentication::TokenType),
        "DeviceKeyAlgorithm" => se!(st, c::DeviceKeyAlgorithm, ord),
        "SigningKeyAlgorithm" => se!(st, c::SigningKeyAlgorithm, ord),
        "EventEncryptionAlgorithm" => se!(st, c::EventEncryptionAlgorithm, ord),
        "KeyDerivationAlgorithm" => se!(st, c::KeyDerivationAlgorithm, ord),
        "OneTimeKeyAlgorithm" => se!(st, c::OneTimeKeyAlgorithm, ord),
        "TimelineEventType" => et!(st, e::TimelineEventType),
        "StateEventType" => et!(st, e::StateEventType),
        "MessageLikeEventType" => et!(st, e::MessageLikeEventType),
        "EphemeralRoomEventType" => et!(st, e::EphemeralRoomEventType),
        "RoomAccountDataEventType" => et!(st, e::RoomAccountDataEventType),
        "GlobalAccountDataEventType" => et!(st, e::GlobalAccountDataEventType),
        "ToDeviceEventType" => et!(st, e::ToDeviceEventType),
        _ => return Err(format!("harness: unknown enum {name}")),
    };
    let vars = match name {
        "MembershipState" => Some(variants!(e::room::member::MembershipState; Ban, Invite, Join, Knock, Leave)),
        "StateResJoinRule" => Some(variants!(ruma_state_res::events::JoinRule; Public, Invite, Knock, Restricted, KnockRestricted)),
        "HistoryVisibility" => Some(variants!(e::room::history_visibility::HistoryVisibility; Invited, Joined, Shared, WorldReadable)),
        "GuestAccess" => Some(variants!(e::room::guest_access::GuestAccess; CanJoin, Forbidden)),
        "MessageFormat" => Some(variants!(e::room::message::MessageFormat; Html)),
        "RelationType" => Some(variants!(e::relation::RelationType; Annotation, Replacement, Thread, Reference)),
        "ReceiptType" => Some(variants!(e::receipt::ReceiptType; Read, ReadPrivate)),
        "VerificationMethod" => Some(variants!(e::key::verification::VerificationMethod; SasV1, QrCodeScanV1, QrCodeShowV1, ReciprocateV1)),
        "KeyAgreementProtocol" => Some(variants!(e::key::verification::KeyAgreementProtocol; Curve25519, Curve25519HkdfSha256)),
        "MessageAuthenticationCode" => Some(variants!(e::key::verification::MessageAuthenticationCode; HkdfHmacSha256, HkdfHmacSha256V2, HmacSha256)),
        "ShortAuthenticationString" => Some(variants!(e::key::verification::ShortAuthenticationString; Decimal, Emoji)),
        "PresenceState" => Some(variants!(c::presence::PresenceState; Offline, Online, Unavailable)),
        "PushFormat" => Some(variants!(c::push::PushFormat; EventIdOnly)),
        "RuleKind" => Some(variants!(c::push::RuleKind; Override, Underride, Sender, Room, Content)),
        "RoomType" => Some(variants!(c::room::RoomType; Space)),
        "Medium" => Some(variants!(c::thirdparty::Medium; Email, Msisdn)),
        "MediaMethod" => Some(variants!(c::media::Method; Crop, Scale)),
        "SpaceRoomJoinRule" => Some(variants!(c::space::SpaceRoomJoinRule; Invite, Knock, Private, Restricted, KnockRestricted, Public)),
        "DeviceKeyAlgorithm" => Some(variants!(c::DeviceKeyAlgorithm; Ed25519, Curve25519)),
        "SigningKeyAlgorithm" => Some(variants!(c::SigningKeyAlgorithm; Ed25519)),
        "EventEncryptionAlgorithm" => Some(variants!(c::EventEncryptionAlgorithm; OlmV1Curve25519AesSha2, MegolmV1AesSha2)),
        "KeyDerivationAlgorithm" => Some(variants!(c::KeyDerivationAlgorithm; Pbkfd2)),
        "OneTimeKeyAlgorithm" => Some(variants!(c::OneTimeKeyAlgorithm; SignedCurve25519)),
        "HashAlgorithm" => Some(variants!(e::key::verification::HashAlgorithm; Sha256)),
        "CancelCode" => Some(variants!(e::key::verification::cancel::CancelCode; User, Timeout, UnknownTransaction, UnknownMethod, UnexpectedMessage, KeyMismatch, UserMismatch, InvalidMessage, Accepted, MismatchedCommitment, MismatchedSas)),
        "RoomKeyRequestAction" => Some(variants!(e::room_key_request::Action; Request, CancelRequest)),
        "SecretName" => Some(variants!(e::secret::request::SecretName; CrossSigningMasterKey, CrossSigningUserSigningKey, CrossSigningSelfSigningKey, RecoveryKey)),
        "PolicyRecommendation" => Some(variants!(e::policy::rule::Recommendation; Ban)),
        "CallHangupReason" => Some(variants!(e::call::hangup::Reason; IceFailed, InviteTimeout, IceTimeout, UserHangup, UserMediaFailed, UserBusy, UnknownError)),
        "ServerNoticeType" => Some(variants!(e::room::message::ServerNoticeType; UsageLimitReached)),
        "LimitType" => Some(variants!(e::room::message::LimitType; MonthlyActiveUser)),
        "PredefinedOverrideRuleId" => Some(variants!(c::push::PredefinedOverrideRuleId; Master, SuppressNotices, InviteForMe, MemberEvent, IsUserMention, ContainsDisplayName, IsRoomMention, RoomNotif, Tombstone, Reaction, RoomServerAcl, SuppressEdits)),
        "PredefinedUnderrideRuleId" => Some(variants!(c::push::PredefinedUnderrideRuleId; Call, EncryptedRoomOneToOne, RoomOneToOne, Message, Encrypted)),
        "PredefinedContentRuleId" => Some(variants!(c::push::PredefinedContentRuleId; ContainsUserName)),
        "PublicRoomJoinRule" => Some(variants!(c::directory::PublicRoomJoinRule; Knock, Public)),
        "KeyUsage" => Some(variants!(c::encryption::KeyUsage; Master, SelfSigning, UserSigning)),
        "TokenType" => Some(variants!(c::authentication::TokenType; Bearer)),
        "StreamPurpose" => Some(variants!(e::call::StreamPurpose; UserMedia, ScreenShare)),
        _ => None,
    };
    out["variants"] = vars.unwrap_or(Value::Null);
    Ok(out)
}

/// m.room.message contents given as JSON texts: which msgtype string the typed value reports and
/// what it serializes back (the msgtype is a tagged-enum discriminator, not a plain string enum).
fn msgtype_conv(cmd: &Value) -> OpResult {
    use ruma_events::room::message::RoomMessageEventContent;
    let mut out = vec![];
    for t in cmd.get("texts").and_then(Value::as_array).ok_or("harness: texts")? {
        let text = t.as_str().ok_or("harness: text")?;
        out.push(match serde_json::from_str::<RoomMessageEventContent>(text) {
            Err(e) => json!({"err": e.to_string()}),
            Ok(c) => {
                let reported = c.msgtype().to_owned();
                let ser = serde_json::to_value(&c).map_err(|e| e.to_string())?;
                json!({"ok": {"msgtype": reported, "serialized_msgtype": ser.get("msgtype").cloned().unwrap_or(Value::Null)}})
            }
        });
    }
    Ok(json!(out))
}

pub fn dispatch(op: &str, cmd: &Value) -> Option<OpResult> {
    Some(match op {
        "enum_conv" => enum_conv(cmd),
        "msgtype_conv" => msgtype_conv(cmd),
        _ => return None,
    })
}
