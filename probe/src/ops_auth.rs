//! Adapters for event authorization (C08, C09) and the power-level helpers (C20).

use std::{cell::RefCell, collections::HashMap};

use ruma_common::UserId;
use ruma_events::{StateEventType, TimelineEventType};
use ruma_state_res::{auth_check, auth_types_for_event};
use serde_json::{json, value::RawValue, Value};

use crate::{ops_json::rules_for, pev::PEv, s, OpResult};

fn one_auth_check(item: &Value) -> Result<Value, String> {
    let rules = rules_for(s(item, "version")?)?;
    let event = PEv::from_json(item.get("event").ok_or("harness: event")?)?;
    let mut state: HashMap<(String, String), PEv> = HashMap::new();
    for ev in item.get("state").and_then(Value::as_array).ok_or("harness: state")? {
        let e = PEv::from_json(ev)?;
        let key = (e.0.ty.to_string(), e.0.state_key.clone().unwrap_or_default());
        state.insert(key, e);
    }
    // read-set monitor: every (type, state_key) the rules ask the caller for
    let reads: RefCell<Vec<(String, String)>> = RefCell::new(vec![]);
    let fetch = |ty: &StateEventType, key: &str| -> Option<PEv> {
        reads.borrow_mut().push((ty.to_string(), key.to_owned()));
        state.get(&(ty.to_string(), key.to_owned())).cloned()
    };
    let res = auth_check(&rules.authorization, &event, fetch);
    let mut r = reads.into_inner();
    r.dedup();
    Ok(json!({
        "result": match res { Ok(()) => json!({"ok": null}), Err(e) => json!({"err": e}) },
        "reads": r,
    }))
}

fn one_auth_types(item: &Value) -> Result<Value, String> {
    let rules = rules_for(s(item, "version")?)?;
    let ty = TimelineEventType::from(s(item, "type")?);
    let sender = <&UserId>::try_from(s(item, "sender")?).map_err(|e| format!("harness: sender: {e}"))?;
    let content = match item.get("content") {
        Some(Value::String(raw)) => RawValue::from_string(raw.clone()).map_err(|e| format!("harness: content: {e}"))?,
        Some(c) => serde_json::value::to_raw_value(c).map_err(|e| format!("harness: content: {e}"))?,
        None => RawValue::from_string("{}".to_owned()).unwrap(),
    };
    let res = auth_types_for_event(
        &ty,
        sender,
        item.get("state_key").and_then(Value::as_str),
        &content,
        &rules.authorization,
    );
    Ok(match res {
        Ok(v) => json!({"ok": v.into_iter().map(|(t, k)| json!([t.to_string(), k])).collect::<Vec<_>>()}),
        Err(e) => json!({"err": e}),
    })
}

pub fn dispatch(op: &str, cmd: &Value) -> Option<OpResult> {
    Some(match op {
        "auth_check" => one_auth_check(cmd),
        "auth_check_batch" => (|| {
            let items = cmd.get("items").and_then(Value::as_array).ok_or("harness: items")?;
            let mut out = Vec::with_capacity(items.len());
            for it in items {
                out.push(one_auth_check(it)?);
            }
            Ok(Value::Array(out))
        })(),
        "auth_types" => one_auth_types(cmd),
        "auth_types_batch" => (|| {
            let items = cmd.get("items").and_then(Value::as_array).ok_or("harness: items")?;
            let mut out = Vec::with_capacity(items.len());
            for it in items {
                out.push(one_auth_types(it)?);
            }
            Ok(Value::Array(out))
        })(),
        "power_helpers" => crate::ops_auth_helpers::power_helpers(cmd),
        _ => return None,
    })
}
