//! Adapters for state resolution (C06, C07).

use std::{
    collections::{hash_map::DefaultHasher, BTreeMap, BTreeSet, HashMap, HashSet},
    hash::{Hash, Hasher},
    sync::{Arc, Mutex},
};

use js_int::Int;
use ruma_common::{EventId, MilliSecondsSinceUnixEpoch, OwnedEventId};
use ruma_events::StateEventType;
use ruma_state_res::{lexicographical_topological_sort, resolve, StateMap};
use serde_json::{json, Value};

use crate::{ops_json::rules_for, pev::PEv, s, OpResult};

type SetSpec = Vec<(String, String, OwnedEventId)>;

fn oid(v: &Value) -> Result<OwnedEventId, String> {
    OwnedEventId::try_from(v.as_str().unwrap_or("")).map_err(|e| format!("harness: event id {v}: {e}"))
}

/// One resolution with freshly built containers (fresh per-map hasher keys), the argument order
/// permuted by `perm_seed`, and every `fetch_event` argument logged.
fn resolve_once(
    rules: &ruma_common::room_version_rules::AuthorizationRules,
    store: &HashMap<OwnedEventId, PEv>,
    sets: &[SetSpec],
    chains: &[Vec<OwnedEventId>],
    perm_seed: u64,
) -> (Result<BTreeMap<(String, String), String>, String>, u64, usize) {
    let mut order: Vec<usize> = (0..sets.len()).collect();
    // small deterministic shuffle
    let mut x = perm_seed.wrapping_mul(6364136223846793005).wrapping_add(1442695040888963407);
    for i in (1..order.len()).rev() {
        x = x.wrapping_mul(6364136223846793005).wrapping_add(1442695040888963407);
        let j = (x >> 33) as usize % (i + 1);
        order.swap(i, j);
    }
    let state_sets: Vec<StateMap<OwnedEventId>> = order
        .iter()
        .map(|&i| {
            let mut m: StateMap<OwnedEventId> = HashMap::new();
            for (t, k, id) in &sets[i] {
                m.insert((StateEventType::from(t.as_str()), k.clone()), id.clone());
            }
            m
        })
        .collect();
    let auth_chains: Vec<HashSet<OwnedEventId>> =
        order.iter().map(|&i| chains[i].iter().cloned().collect::<HashSet<_>>()).collect();
    let trace: Mutex<(DefaultHasher, usize)> = Mutex::new((DefaultHasher::new(), 0));
    let fetch = |id: &EventId| -> Option<PEv> {
        let mut t = trace.lock().unwrap();
        id.as_str().hash(&mut t.0);
        t.1 += 1;
        store.get(id).cloned()
    };
    let res = resolve(rules, state_sets.iter(), auth_chains, fetch);
    let (h, n) = trace.into_inner().unwrap();
    (
        res.map(|m| m.into_iter().map(|((t, k), id)| ((t.to_string(), k), id.to_string())).collect())
            .map_err(|e| e.to_string()),
        h.finish(),
        n,
    )
}

fn resolve_many(cmd: &Value) -> OpResult {
    let rules = rules_for(s(cmd, "version")?)?.authorization;
    let mut store: HashMap<OwnedEventId, PEv> = HashMap::new();
    for ev in cmd.get("store").and_then(Value::as_array).ok_or("harness: store")? {
        let e = PEv::from_json(ev)?;
        store.insert(e.0.event_id.clone(), e);
    }
    let mut sets: Vec<SetSpec> = vec![];
    for set in cmd.get("state_sets").and_then(Value::as_array).ok_or("harness: state_sets")? {
        let mut v = vec![];
        for e in set.as_array().ok_or("harness: state set")? {
            v.push((
                e.get(0).and_then(Value::as_str).ok_or("harness: set type")?.to_owned(),
                e.get(1).and_then(Value::as_str).ok_or("harness: set key")?.to_owned(),
                oid(e.get(2).ok_or("harness: set id")?)?,
            ));
        }
        sets.push(v);
    }
    let mut chains: Vec<Vec<OwnedEventId>> = vec![];
    for c in cmd.get("auth_chains").and_then(Value::as_array).ok_or("harness: auth_chains")? {
        chains.push(c.as_array().ok_or("harness: chain")?.iter().map(oid).collect::<Result<_, _>>()?);
    }
    let reps = cmd.get("reps").and_then(Value::as_u64).unwrap_or(1);
    let threads = cmd.get("threads").and_then(Value::as_u64).unwrap_or(1).max(1);
    let permute = crate::b(cmd, "permute");
    let seed = cmd.get("seed").and_then(Value::as_u64).unwrap_or(0);

    let store = Arc::new(store);
    let sets = Arc::new(sets);
    let chains = Arc::new(chains);
    let rules = Arc::new(rules);
    type Out = (BTreeSet<String>, BTreeSet<u64>, u64, usize);
    // One resolution on the long-lived worker thread (which has served every earlier command: other
    // stores, other room versions), the others on fresh threads: "however often or on whichever thread".
    let inline = if crate::b(cmd, "inline") {
        let (res, trace, n) = resolve_once(&rules, &store, &sets, &chains, 0);
        Some((
            match res {
                Ok(m) => serde_json::to_string(&m.into_iter().map(|((t, k), id)| (t, k, id)).collect::<Vec<_>>()).unwrap(),
                Err(e) => format!("ERR:{e}"),
            },
            trace,
            n,
        ))
    } else {
        None
    };
    let mut handles = vec![];
    for t in 0..threads {
        let (store, sets, chains, rules) = (store.clone(), sets.clone(), chains.clone(), rules.clone());
        handles.push(std::thread::Builder::new().stack_size(2 * 1024 * 1024).spawn(move || -> Out {
            let mut results = BTreeSet::new();
            let mut traces = BTreeSet::new();
            let mut fetches = 0usize;
            for r in 0..reps {
                let perm_seed = if permute { seed ^ (t << 32) ^ r } else { 0 };
                let (res, trace, n) = resolve_once(&rules, &store, &sets, &chains, if permute { perm_seed.wrapping_add(1) } else { 0 });
                results.insert(match res {
                    Ok(m) => serde_json::to_string(&m.into_iter().map(|((t, k), id)| (t, k, id)).collect::<Vec<_>>()).unwrap(),
                    Err(e) => format!("ERR:{e}"),
                });
                traces.insert(trace);
                fetches += n;
            }
            (results, traces, reps, fetches)
        }).map_err(|e| format!("harness: spawn: {e}"))?);
    }
    let mut results = BTreeSet::new();
    let mut traces = BTreeSet::new();
    let mut runs = 0;
    let mut fetches = 0;
    if let Some((r, t, n)) = inline {
        results.insert(r);
        traces.insert(t);
        runs += 1;
        fetches += n;
    }
    for h in handles {
        match h.join() {
            Ok((r, t, n, f)) => {
                results.extend(r);
                traces.extend(t);
                runs += n;
                fetches += f;
            }
            Err(p) => std::panic::resume_unwind(p),
        }
    }
    Ok(json!({
        "results": results.into_iter().collect::<Vec<_>>(),
        "distinct_fetch_traces": traces.len(),
        "runs": runs,
        "fetch_calls": fetches,
    }))
}

fn lexico(cmd: &Value) -> OpResult {
    let g = cmd.get("graph").and_then(Value::as_object).ok_or("harness: graph")?;
    let mut graph: HashMap<OwnedEventId, HashSet<OwnedEventId>> = HashMap::new();
    for (k, deps) in g {
        let id = OwnedEventId::try_from(k.as_str()).map_err(|e| format!("harness: node {k}: {e}"))?;
        let deps: HashSet<OwnedEventId> = deps.as_array().ok_or("harness: deps")?.iter().map(oid).collect::<Result<_, _>>()?;
        graph.insert(id, deps);
    }
    let keys = cmd.get("keys").and_then(Value::as_object).ok_or("harness: keys")?;
    let res = lexicographical_topological_sort(&graph, |id| {
        let k = keys.get(id.as_str()).ok_or_else(|| ruma_state_res::Error::NotFound(id.to_owned()))?;
        let pl = Int::try_from(k.get(0).and_then(Value::as_i64).unwrap_or(0)).unwrap_or_default();
        let ts = js_int::UInt::try_from(k.get(1).and_then(Value::as_u64).unwrap_or(0)).unwrap_or_default();
        Ok((pl, MilliSecondsSinceUnixEpoch(ts)))
    });
    Ok(match res {
        Ok(v) => json!({"ok": v.iter().map(|i| i.to_string()).collect::<Vec<_>>()}),
        Err(e) => json!({"err": e.to_string()}),
    })
}

pub fn dispatch(op: &str, cmd: &Value) -> Option<OpResult> {
    Some(match op {
        "resolve_many" => resolve_many(cmd),
        "lexico_topo_sort" => lexico(cmd),
        _ => return None,
    })
}
