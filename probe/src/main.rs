//! Probe worker (core): thin adapters around ruma's public entry points. See proto.rs for the
//! protocol. No oracle logic lives here: every op returns what ruma returned.

use serde_json::{json, Value};

mod ops_auth;
mod ops_auth_helpers;
mod ops_enums;
mod ops_events;
mod ops_html;
mod ops_ids;
mod ops_json;
mod ops_push;
mod ops_stateres;
mod pev;
mod proto;

pub use proto::{b, opt_s, s, u, OpResult};

fn dispatch(cmd: &Value) -> OpResult {
    let op = s(cmd, "op")?;
    for d in [
        ops_json::dispatch,
        ops_ids::dispatch,
        ops_push::dispatch,
        ops_html::dispatch,
        ops_auth::dispatch,
        ops_stateres::dispatch,
        ops_events::dispatch,
        ops_enums::dispatch,
    ] {
        if let Some(r) = d(op, cmd) {
            return r;
        }
    }
    match op {
        "ping" => Ok(json!("pong")),
        // deliberately misbehaving ops, used only by the harness self-test of the supervisor
        "selftest_panic" => panic!("selftest panic"),
        "selftest_abort" => std::process::abort(),
        "selftest_hang" => loop {
            std::thread::sleep(std::time::Duration::from_secs(1));
        },
        _ => Err(format!("harness: unknown op {op:?}")),
    }
}

fn main() {
    proto::run_main(dispatch);
}
