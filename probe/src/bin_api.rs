//! Probe worker (API): endpoint (de)serialization adapters (C16) and wire-data entry points of
//! the API crates (C17). Same protocol as the core probe (see proto.rs).

use std::fmt::Debug;

use http::{HeaderName, HeaderValue};
use ruma_common::api::{
    AuthScheme, IncomingRequest, IncomingResponse, MatrixVersion, Metadata, OutgoingRequest,
    OutgoingResponse, SendAccessToken, VersionHistory,
};
use serde_json::{json, Value};

mod proto;
mod synth;

pub use proto::{b, opt_s, s, u, OpResult};

const BASE_URL: &str = "https://homeserver.tld";

fn versions_of(cmd: &Value) -> Result<Vec<MatrixVersion>, String> {
    cmd.get("versions")
        .and_then(Value::as_array)
        .ok_or("harness: versions")?
        .iter()
        .map(|v| {
            MatrixVersion::try_from(v.as_str().unwrap_or(""))
                .map_err(|_| format!("harness: version {v}"))
        })
        .collect()
}

fn token_of(cmd: &Value) -> SendAccessToken<'_> {
    match opt_s(cmd, "token_mode") {
        Some("always") => SendAccessToken::Always(opt_s(cmd, "token").unwrap_or("tok")),
        Some("appservice") => SendAccessToken::Appservice(opt_s(cmd, "token").unwrap_or("tok")),
        Some("none") => SendAccessToken::None,
        _ => SendAccessToken::IfRequired(opt_s(cmd, "token").unwrap_or("tok")),
    }
}

pub fn dump_request(req: &http::Request<Vec<u8>>) -> Value {
    let mut headers: Vec<(String, String)> = req
        .headers()
        .iter()
        .map(|(k, v)| (k.as_str().to_owned(), String::from_utf8_lossy(v.as_bytes()).into_owned()))
        .collect();
    headers.sort();
    json!({
        "method": req.method().as_str(),
        "uri": req.uri().to_string(),
        "headers": headers,
        "body": String::from_utf8_lossy(req.body()),
        "body_len": req.body().len(),
    })
}

pub fn dump_response(resp: &http::Response<Vec<u8>>) -> Value {
    let mut headers: Vec<(String, String)> = resp
        .headers()
        .iter()
        .map(|(k, v)| (k.as_str().to_owned(), String::from_utf8_lossy(v.as_bytes()).into_owned()))
        .collect();
    headers.sort();
    json!({
        "status": resp.status().as_u16(),
        "headers": headers,
        "body": String::from_utf8_lossy(resp.body()),
    })
}

/// The receiving side's router: split the path on '/', match it against every path of the
/// endpoint's history, percent-decode the placeholders.
pub fn route(metadata: &Metadata, uri: &http::Uri) -> Option<Vec<String>> {
    let path = uri.path();
    let segs: Vec<&str> = path.split('/').collect();
    for template in metadata.history.all_paths() {
        let tsegs: Vec<&str> = template.split('/').collect();
        if tsegs.len() != segs.len() {
            continue;
        }
        let mut args = vec![];
        let mut ok = true;
        for (t, s) in tsegs.iter().zip(&segs) {
            if t.starts_with(':') {
                match percent_encoding::percent_decode_str(s).decode_utf8() {
                    Ok(d) => args.push(d.into_owned()),
                    Err(_) => {
                        ok = false;
                        break;
                    }
                }
            } else if t != s {
                ok = false;
                break;
            }
        }
        if ok {
            return Some(args);
        }
    }
    None
}

fn http_request_of(v: &Value) -> Result<http::Request<Vec<u8>>, String> {
    let mut b = http::Request::builder()
        .method(s(v, "method")?)
        .uri(s(v, "uri")?);
    if let Some(hs) = v.get("headers").and_then(Value::as_array) {
        for h in hs {
            let k = h.get(0).and_then(Value::as_str).ok_or("harness: header name")?;
            let val = h.get(1).and_then(Value::as_str).ok_or("harness: header value")?;
            b = b.header(
                HeaderName::try_from(k).map_err(|e| format!("harness: header name: {e}"))?,
                HeaderValue::try_from(val).map_err(|e| format!("harness: header value: {e}"))?,
            );
        }
    }
    b.body(opt_s(v, "body").unwrap_or("").as_bytes().to_vec()).map_err(|e| format!("harness: request: {e}"))
}

/// value -> HTTP -> (route) -> value -> HTTP, starting from a typed value
pub fn cycle_from_value<R>(v: R, cmd: &Value) -> OpResult
where
    R: OutgoingRequest + IncomingRequest + Debug,
{
    let versions = versions_of(cmd)?;
    let dbg0 = format!("{v:?}");
    let h1 = match v.try_into_http_request::<Vec<u8>>(BASE_URL, token_of(cmd), &versions) {
        Ok(h) => h,
        Err(e) => return Ok(json!({"value": dbg0, "encode_err": e.to_string()})),
    };
    let d1 = dump_request(&h1);
    let Some(args) = route(&<R as OutgoingRequest>::METADATA, h1.uri()) else {
        return Ok(json!({"value": dbg0, "h1": d1, "route_err": "no path template matches"}));
    };
    let v2 = match R::try_from_http_request(h1, &args) {
        Ok(v2) => v2,
        Err(e) => return Ok(json!({"value": dbg0, "h1": d1, "path_args": args, "decode_err": e.to_string()})),
    };
    let dbg2 = format!("{v2:?}");
    let h2 = match v2.try_into_http_request::<Vec<u8>>(BASE_URL, token_of(cmd), &versions) {
        Ok(h) => dump_request(&h),
        Err(e) => json!({"encode_err": e.to_string()}),
    };
    Ok(json!({"value": dbg0, "h1": d1, "path_args": args, "value2": dbg2, "h2": h2}))
}

/// HTTP -> value -> HTTP -> value -> HTTP, starting from an HTTP message
fn cycle_from_http<R>(cmd: &Value) -> OpResult
where
    R: OutgoingRequest + IncomingRequest + Debug,
{
    let h0 = http_request_of(cmd.get("http").ok_or("harness: http")?)?;
    let Some(args) = route(&<R as OutgoingRequest>::METADATA, h0.uri()) else {
        return Ok(json!({"route0_err": "no path template matches"}));
    };
    let v = match R::try_from_http_request(h0, &args) {
        Ok(v) => v,
        Err(e) => return Ok(json!({"path_args0": args, "decode0_err": e.to_string()})),
    };
    let mut out = cycle_from_value(v, cmd)?;
    out["path_args0"] = json!(args);
    Ok(out)
}

fn response_cycle<Resp>(cmd: &Value) -> OpResult
where
    Resp: OutgoingResponse + IncomingResponse + Debug,
{
    let h = cmd.get("http").ok_or("harness: http")?;
    let mut bld = http::Response::builder().status(h.get("status").and_then(Value::as_u64).unwrap_or(200) as u16);
    if let Some(hs) = h.get("headers").and_then(Value::as_array) {
        for x in hs {
            bld = bld.header(x.get(0).and_then(Value::as_str).unwrap_or("x"), x.get(1).and_then(Value::as_str).unwrap_or(""));
        }
    }
    let h0 = bld.body(opt_s(h, "body").unwrap_or("").as_bytes().to_vec()).map_err(|e| format!("harness: response: {e}"))?;
    let v = match Resp::try_from_http_response(h0) {
        Ok(v) => v,
        Err(e) => return Ok(json!({"decode0_err": e.to_string()})),
    };
    response_cycle_from_value(v)
}

pub fn response_cycle_from_value<Resp>(v: Resp) -> OpResult
where
    Resp: OutgoingResponse + IncomingResponse + Debug,
{
    let dbg0 = format!("{v:?}");
    let h1 = match v.try_into_http_response::<Vec<u8>>() {
        Ok(h) => h,
        Err(e) => return Ok(json!({"value": dbg0, "encode_err": e.to_string()})),
    };
    let d1 = dump_response(&h1);
    let v2 = match Resp::try_from_http_response(h1) {
        Ok(v2) => v2,
        Err(e) => return Ok(json!({"value": dbg0, "h1": d1, "decode_err": e.to_string()})),
    };
    let dbg2 = format!("{v2:?}");
    let h2 = match v2.try_into_http_response::<Vec<u8>>() {
        Ok(h) => dump_response(&h),
        Err(e) => json!({"encode_err": e.to_string()}),
    };
    Ok(json!({"value": dbg0, "h1": d1, "value2": dbg2, "h2": h2}))
}

fn describe(m: &Metadata) -> Value {
    json!({
        "method": m.method.as_str(),
        "authentication": format!("{:?}", m.authentication),
        "unstable_paths": m.history.unstable_paths().collect::<Vec<_>>(),
        "stable_paths": m.history.stable_paths().map(|(v, p)| json!([format!("{v:?}"), p])).collect::<Vec<_>>(),
        "deprecated": m.history.deprecated_in().map(|v| format!("{v:?}")),
        "removed": m.history.removed_in().map(|v| format!("{v:?}")),
    })
}

macro_rules! endpoints {
    ($( $name:literal => $($path:ident)::+ ),* $(,)?) => {
        fn real_request_cycle(name: &str, cmd: &Value) -> Option<OpResult> {
            Some(match name {
                $( $name => cycle_from_http::<$($path)::+::Request>(cmd), )*
                _ => return None,
            })
        }
        fn real_response_cycle(name: &str, cmd: &Value) -> Option<OpResult> {
            Some(match name {
                $( $name => response_cycle::<$($path)::+::Response>(cmd), )*
                _ => return None,
            })
        }
        fn real_describe(name: &str) -> Option<Value> {
            Some(match name {
                $( $name => describe(&<$($path)::+::Request as OutgoingRequest>::METADATA), )*
                _ => return None,
            })
        }
        fn real_metadata(name: &str) -> Option<Metadata> {
            Some(match name {
                $( $name => <$($path)::+::Request as OutgoingRequest>::METADATA, )*
                _ => return None,
            })
        }
        const REAL_ENDPOINTS: &[&str] = &[$($name),*];
    };
}

use ruma_appservice_api as asapi;
use ruma_client_api as capi;
use ruma_federation_api as fapi;
use ruma_identity_service_api as isapi;
use ruma_push_gateway_api as pgapi;

endpoints! {
    "client.join_room_by_id" => capi::membership::join_room_by_id::v3,
    "client.join_room_by_id_or_alias" => capi::membership::join_room_by_id_or_alias::v3,
    "client.leave_room" => capi::membership::leave_room::v3,
    "client.invite_user" => capi::membership::invite_user::v3,
    "client.send_message_event" => capi::message::send_message_event::v3,
    "client.send_state_event" => capi::state::send_state_event::v3,
    "client.get_state_events_for_key" => capi::state::get_state_events_for_key::v3,
    "client.get_alias" => capi::alias::get_alias::v3,
    "client.create_alias" => capi::alias::create_alias::v3,
    "client.get_display_name" => capi::profile::get_display_name::v3,
    "client.set_display_name" => capi::profile::set_display_name::v3,
    "client.redact_event" => capi::redact::redact_event::v3,
    "client.create_typing_event" => capi::typing::create_typing_event::v3,
    "client.set_pushrule_enabled" => capi::push::set_pushrule_enabled::v3,
    "client.delete_pushrule" => capi::push::delete_pushrule::v3,
    "client.get_room_event" => capi::room::get_room_event::v3,
    "client.get_message_events" => capi::message::get_message_events::v3,
    "client.create_content" => capi::media::create_content::v3,
    "client.get_content" => capi::authenticated_media::get_content::v1,
    "client.send_event_to_device" => capi::to_device::send_event_to_device::v3,
    "client.whoami" => capi::account::whoami::v3,
    "client.get_tags" => capi::tag::get_tags::v3,
    "client.create_tag" => capi::tag::create_tag::v3,
    "client.set_global_account_data" => capi::config::set_global_account_data::v3,
    "client.get_room_visibility" => capi::directory::get_room_visibility::v3,
    "client.knock_room" => capi::knock::knock_room::v3,
    "federation.get_event" => fapi::event::get_event::v1,
    "federation.get_profile_information" => fapi::query::get_profile_information::v1,
    "federation.get_room_information" => fapi::query::get_room_information::v1,
    "federation.get_backfill" => fapi::backfill::get_backfill::v1,
    "federation.create_join_event_template" => fapi::membership::prepare_join_event::v1,
    "federation.get_room_state_ids" => fapi::event::get_room_state_ids::v1,
    "appservice.query_user_id" => asapi::query::query_user_id::v1,
    "appservice.query_room_alias" => asapi::query::query_room_alias::v1,
    "appservice.send_ping" => asapi::ping::send_ping::v1,
    "identity.get_terms_of_service" => isapi::tos::get_terms_of_service::v2,
    "identity.check_public_key_validity" => isapi::keys::check_public_key_validity::v2,
    "pushgateway.send_event_notification" => pgapi::send_event_notification::v1,
}

fn leak_str(x: &str) -> &'static str {
    Box::leak(x.to_owned().into_boxed_str())
}

fn history_of(h: &Value) -> Result<VersionHistory, String> {
    let unstable: Vec<&'static str> = h
        .get("unstable")
        .and_then(Value::as_array)
        .map(|a| a.iter().filter_map(Value::as_str).map(leak_str).collect())
        .unwrap_or_default();
    let mut stable: Vec<(MatrixVersion, &'static str)> = vec![];
    if let Some(a) = h.get("stable").and_then(Value::as_array) {
        for x in a {
            let v = MatrixVersion::try_from(x.get(0).and_then(Value::as_str).unwrap_or(""))
                .map_err(|_| "harness: stable version".to_owned())?;
            stable.push((v, leak_str(x.get(1).and_then(Value::as_str).ok_or("harness: stable path")?)));
        }
    }
    let ver = |k: &str| -> Result<Option<MatrixVersion>, String> {
        match h.get(k).and_then(Value::as_str) {
            Some(x) => MatrixVersion::try_from(x).map(Some).map_err(|_| format!("harness: {k}")),
            None => Ok(None),
        }
    };
    let unstable: &'static [&'static str] = Box::leak(unstable.into_boxed_slice());
    let stable: &'static [(MatrixVersion, &'static str)] = Box::leak(stable.into_boxed_slice());
    Ok(VersionHistory::new(unstable, stable, ver("deprecated")?, ver("removed")?))
}

fn dispatch(cmd: &Value) -> OpResult {
    let op = s(cmd, "op")?;
    match op {
        "ping" => Ok(json!("pong")),
        "endpoint_list" => Ok(json!({
            "real": REAL_ENDPOINTS.iter().map(|n| json!({"name": n, "meta": real_describe(n)})).collect::<Vec<_>>(),
            "synthetic": synth::describe_all(),
        })),
        "request_cycle" => {
            let name = s(cmd, "endpoint")?;
            real_request_cycle(name, cmd).unwrap_or_else(|| Err(format!("harness: endpoint {name}")))
        }
        "response_cycle" => {
            let name = s(cmd, "endpoint")?;
            real_response_cycle(name, cmd).unwrap_or_else(|| Err(format!("harness: endpoint {name}")))
        }
        "synth_request" => synth::request(cmd),
        "synth_response" => synth::response(cmd),
        "select_path" => {
            // history (arbitrary valid) x version list -> URL or error
            let history = history_of(cmd.get("history").ok_or("harness: history")?)?;
            let m = Metadata {
                method: http::Method::GET,
                rate_limited: false,
                authentication: AuthScheme::None,
                history,
            };
            let mut out = vec![];
            for vs in cmd.get("version_sets").and_then(Value::as_array).ok_or("harness: version_sets")? {
                let versions: Vec<MatrixVersion> = vs
                    .as_array()
                    .ok_or("harness: version set")?
                    .iter()
                    .map(|v| MatrixVersion::try_from(v.as_str().unwrap_or("")).map_err(|_| format!("harness: version {v}")))
                    .collect::<Result<_, _>>()?;
                let args: Vec<String> = cmd
                    .get("path_args")
                    .and_then(Value::as_array)
                    .map(|a| a.iter().filter_map(Value::as_str).map(str::to_owned).collect())
                    .unwrap_or_default();
                let dargs: Vec<&dyn std::fmt::Display> = args.iter().map(|a| a as &dyn std::fmt::Display).collect();
                out.push(match m.make_endpoint_url(&versions, BASE_URL, &dargs, opt_s(cmd, "query").unwrap_or("")) {
                    Ok(u) => json!({"ok": u}),
                    Err(e) => json!({"err": e.to_string()}),
                });
            }
            Ok(json!(out))
        }
        "select_path_real" => {
            let name = s(cmd, "endpoint")?;
            let meta_fn = |n: &str| -> Option<Metadata> { synth::metadata(n).or_else(|| real_metadata(n)) };
            let m = meta_fn(name).ok_or_else(|| format!("harness: endpoint {name}"))?;
            let nargs = m._path_parameters().len();
            let args: Vec<String> = (0..nargs).map(|i| format!("arg{i}")).collect();
            let dargs: Vec<&dyn std::fmt::Display> = args.iter().map(|a| a as &dyn std::fmt::Display).collect();
            let mut out = vec![];
            for vs in cmd.get("version_sets").and_then(Value::as_array).ok_or("harness: version_sets")? {
                let versions: Vec<MatrixVersion> = vs
                    .as_array()
                    .ok_or("harness: version set")?
                    .iter()
                    .map(|v| MatrixVersion::try_from(v.as_str().unwrap_or("")).map_err(|_| format!("harness: version {v}")))
                    .collect::<Result<_, _>>()?;
                out.push(match m.make_endpoint_url(&versions, BASE_URL, &dargs, "") {
                    Ok(u) => json!({"ok": u}),
                    Err(e) => json!({"err": e.to_string()}),
                });
            }
            Ok(json!(out))
        }
        "auth_header" => {
            let scheme = match s(cmd, "scheme")? {
                "None" => AuthScheme::None,
                "AccessToken" => AuthScheme::AccessToken,
                "AccessTokenOptional" => AuthScheme::AccessTokenOptional,
                "AppserviceToken" => AuthScheme::AppserviceToken,
                "AppserviceTokenOptional" => AuthScheme::AppserviceTokenOptional,
                "ServerSignatures" => AuthScheme::ServerSignatures,
                x => return Err(format!("harness: scheme {x}")),
            };
            let m = Metadata {
                method: http::Method::GET,
                rate_limited: false,
                authentication: scheme,
                history: VersionHistory::new(&["/x"], &[], None, None),
            };
            Ok(match m.authorization_header(token_of(cmd)) {
                Ok(Some((k, v))) => json!({"ok": [k.as_str(), String::from_utf8_lossy(v.as_bytes())]}),
                Ok(None) => json!({"ok": null}),
                Err(e) => json!({"err": e.to_string()}),
            })
        }
        "xmatrix_parse" => {
            let text = s(cmd, "text")?;
            Ok(match fapi::authentication::XMatrix::parse(text) {
                Ok(x) => {
                    let again = fapi::authentication::XMatrix::parse(x.to_string());
                    json!({"ok": {
                        "origin": x.origin.as_str(), "destination": x.destination.as_ref().map(|d| d.as_str()),
                        "key": x.key.as_str(), "sig": x.sig.encode(), "text": x.to_string(),
                        "again": match again {
                            Ok(y) => json!({"origin": y.origin.as_str(), "destination": y.destination.as_ref().map(|d| d.as_str()),
                                            "key": y.key.as_str(), "sig": y.sig.encode()}),
                            Err(e) => json!({"err": e.to_string()}),
                        },
                    }})
                }
                Err(e) => json!({"err": e.to_string()}),
            })
        }
        "xmatrix_build" => {
            use ruma_common::{serde::Base64, OwnedServerName, OwnedServerSigningKeyId};
            let origin = OwnedServerName::try_from(s(cmd, "origin")?).map_err(|e| format!("harness: origin {e}"))?;
            let key = OwnedServerSigningKeyId::try_from(s(cmd, "key")?).map_err(|e| format!("harness: key {e}"))?;
            let sig = Base64::parse(s(cmd, "sig")?).map_err(|e| format!("harness: sig {e}"))?;
            let mut x = fapi::authentication::XMatrix::new(
                origin.clone(),
                OwnedServerName::try_from(opt_s(cmd, "destination").unwrap_or("d.example")).map_err(|e| format!("harness: dest {e}"))?,
                key,
                sig,
            );
            if opt_s(cmd, "destination").is_none() {
                x.destination = None;
            }
            let text = x.to_string();
            let hv: HeaderValue = (&x).into();
            Ok(match fapi::authentication::XMatrix::parse(&text) {
                Ok(y) => json!({"text": text, "header": String::from_utf8_lossy(hv.as_bytes()), "back": {
                    "origin": y.origin.as_str(), "destination": y.destination.as_ref().map(|d| d.as_str()),
                    "key": y.key.as_str(), "sig": y.sig.encode()}}),
                Err(e) => json!({"text": text, "back_err": e.to_string()}),
            })
        }
        _ => fuzz_entry(op, cmd).unwrap_or_else(|| Err(format!("harness: unknown op {op:?}"))),
    }
}

/// Wire-data entry points of the API crates for the C17 monitor.
fn fuzz_entry(op: &str, cmd: &Value) -> Option<OpResult> {
    Some(match op {
        "fuzz_request" => (|| {
            // arbitrary HTTP request against a real endpoint: result kind only
            let name = s(cmd, "endpoint")?;
            let r = real_request_cycle(name, cmd).unwrap_or_else(|| Err(format!("harness: endpoint {name}")))?;
            let kind = ["route0_err", "decode0_err", "encode_err", "route_err", "decode_err"]
                .iter()
                .find(|k| r.get(**k).is_some())
                .copied()
                .unwrap_or("ok");
            Ok(json!({"kind": kind}))
        })(),
        "fuzz_response" => (|| {
            let name = s(cmd, "endpoint")?;
            let r = real_response_cycle(name, cmd).unwrap_or_else(|| Err(format!("harness: endpoint {name}")))?;
            let kind = ["decode0_err", "encode_err", "decode_err"].iter().find(|k| r.get(**k).is_some()).copied().unwrap_or("ok");
            Ok(json!({"kind": kind}))
        })(),
        "multipart_response" => (|| {
            // federation authenticated media: multipart/mixed response bodies from a remote server
            use base64::Engine;
            use fapi::authenticated_media::{get_content, get_content_thumbnail, Content, ContentMetadata, FileOrLocation};
            let ct = opt_s(cmd, "content_type").unwrap_or("multipart/mixed; boundary=abcdef");
            let decode = |body: Vec<u8>, ct: &str| -> Result<String, String> {
                let mk = || http::Response::builder().status(200).header(http::header::CONTENT_TYPE, ct).body(body.clone());
                let r1 = get_content::v1::Response::try_from_http_response(mk().map_err(|e| format!("harness: {e}"))?);
                let r2 = get_content_thumbnail::v1::Response::try_from_http_response(mk().map_err(|e| format!("harness: {e}"))?);
                if r1.is_ok() != r2.is_ok() {
                    return Err("get_content and get_content_thumbnail disagree".to_owned());
                }
                Ok(match r1 {
                    Ok(r) => match r.content {
                        FileOrLocation::File(c) => format!("file:{}:{:?}:{:?}", base64::engine::general_purpose::STANDARD.encode(&c.file),
                                                           c.content_type, c.content_disposition.map(|d| d.to_string())),
                        FileOrLocation::Location(l) => format!("location:{l}"),
                        _ => "other".to_owned(),
                    },
                    Err(e) => format!("err:{}", e.to_string().chars().take(80).collect::<String>()),
                })
            };
            if let Some(b64) = opt_s(cmd, "body_b64") {
                let body = base64::engine::general_purpose::STANDARD.decode(b64).map_err(|e| format!("harness: {e}"))?;
                return Ok(json!({"decoded": decode(body, ct).map_err(|e| e)?}));
            }
            // cycle: encode a value, decode it again
            let file = base64::engine::general_purpose::STANDARD
                .decode(opt_s(cmd, "file_b64").unwrap_or("")).map_err(|e| format!("harness: {e}"))?;
            let content = match opt_s(cmd, "location") {
                Some(l) => FileOrLocation::Location(l.to_owned()),
                None => {
                    let mut c = Content::new(
                        file.clone(),
                        opt_s(cmd, "file_content_type").unwrap_or("text/plain").to_owned(),
                        ruma_common::http_headers::ContentDisposition::new(ruma_common::http_headers::ContentDispositionType::Attachment)
                            .with_filename(opt_s(cmd, "filename").map(str::to_owned)),
                    );
                    if opt_s(cmd, "file_content_type").is_none() {
                        c.content_type = None;
                    }
                    if opt_s(cmd, "filename").is_none() && crate::b(cmd, "no_disposition") {
                        c.content_disposition = None;
                    }
                    FileOrLocation::File(c)
                }
            };
            let resp = get_content::v1::Response::new(ContentMetadata::new(), content);
            let http: http::Response<Vec<u8>> = match resp.try_into_http_response() {
                Ok(h) => h,
                Err(e) => return Ok(json!({"encode_err": e.to_string()})),
            };
            let ct2 = http.headers().get(http::header::CONTENT_TYPE).and_then(|v| v.to_str().ok()).unwrap_or("").to_owned();
            let body = http.body().clone();
            Ok(json!({"encoded_b64": base64::engine::general_purpose::STANDARD.encode(&body), "content_type": ct2,
                      "decoded": decode(body, &ct2).map_err(|e| e)?}))
        })(),
        "fuzz_error_body" => (|| {
            // client-api error bodies: FromHttpResponseError path with non-2xx status
            let h = cmd.get("http").ok_or("harness: http")?;
            let status = h.get("status").and_then(Value::as_u64).unwrap_or(400) as u16;
            let resp = http::Response::builder()
                .status(status)
                .body(opt_s(h, "body").unwrap_or("").as_bytes().to_vec())
                .map_err(|e| format!("harness: {e}"))?;
            let r = capi::account::whoami::v3::Response::try_from_http_response(resp);
            Ok(json!({"kind": match r { Ok(_) => "ok".to_owned(), Err(e) => {
                e.to_string().chars().take(60).collect::<String>() } }}))
        })(),
        "content_disposition_build" => (|| {
            use ruma_common::http_headers::{ContentDisposition, ContentDispositionType};
            let ty = match opt_s(cmd, "type").unwrap_or("attachment") {
                "inline" => ContentDispositionType::Inline,
                "attachment" => ContentDispositionType::Attachment,
                x => match ContentDispositionType::parse(x) {
                    Ok(t) => t,
                    Err(e) => return Ok(json!({"type_err": e.to_string()})),
                },
            };
            let cd = ContentDisposition::new(ty).with_filename(opt_s(cmd, "filename").map(str::to_owned));
            let text = cd.to_string();
            Ok(match ContentDisposition::try_from(text.as_bytes()) {
                Ok(back) => json!({"text": text, "back_filename": back.filename, "back_type": back.disposition_type.as_str(),
                                   "equal": back == cd}),
                Err(e) => json!({"text": text, "back_err": e.to_string()}),
            })
        })(),
        "content_disposition" => (|| {
            use ruma_common::http_headers::ContentDisposition;
            let text = s(cmd, "text")?;
            Ok(match ContentDisposition::try_from(text.as_bytes()) {
                Ok(cd) => {
                    let out = cd.to_string();
                    let again = ContentDisposition::try_from(out.as_bytes());
                    json!({"ok": {"text": out, "filename": cd.filename, "type": cd.disposition_type.as_str(),
                                  "again_equal": again.map(|a| a == cd).unwrap_or(false)}})
                }
                Err(e) => json!({"err": e.to_string()}),
            })
        })(),
        _ => return None,
    })
}

fn main() {
    proto::run_main(dispatch);
}
