//! Adapters for canonical JSON, redaction, hashes and signatures (C01–C05).

use std::collections::BTreeMap;

use base64::Engine;
use ruma_common::{
    canonical_json::{
        redact, redact_content_in_place, redact_in_place, to_canonical_value, try_from_json_map,
        RedactedBecause,
    },
    room_version_rules::RoomVersionRules,
    serde::Base64,
    CanonicalJsonObject, CanonicalJsonValue, RoomVersionId, SigningKeyAlgorithm,
};
use ruma_signatures::{Ed25519KeyPair, PublicKeyMap, Verified};
use serde_json::{json, Value};

use crate::{opt_s, s, OpResult};

pub fn rules_for(version: &str) -> Result<RoomVersionRules, String> {
    let id = RoomVersionId::try_from(version).map_err(|e| format!("harness: bad version: {e}"))?;
    id.rules().ok_or_else(|| "harness: no rules for version".to_owned())
}

fn res<T: Into<Value>, E: std::fmt::Display>(r: Result<T, E>) -> Value {
    match r {
        Ok(v) => json!({"ok": v.into()}),
        Err(e) => json!({"err": e.to_string()}),
    }
}

fn obj_string(o: &CanonicalJsonObject) -> String {
    serde_json::to_string(o).unwrap_or_else(|e| format!("<<serialize error {e}>>"))
}

fn parse_obj(text: &str) -> Result<CanonicalJsonObject, String> {
    serde_json::from_str::<CanonicalJsonObject>(text).map_err(|e| format!("parse: {e}"))
}

fn keypair(cmd: &Value) -> Result<Ed25519KeyPair, String> {
    let der = s(cmd, "der_b64")?;
    let der = base64::engine::general_purpose::STANDARD
        .decode(der)
        .map_err(|e| format!("harness: der_b64: {e}"))?;
    let version = s(cmd, "key_version")?;
    Ed25519KeyPair::from_der(&der, version.to_owned()).map_err(|e| format!("from_der: {e}"))
}

fn key_map(cmd: &Value) -> Result<PublicKeyMap, String> {
    let mut map = PublicKeyMap::new();
    let keys = cmd.get("keys").and_then(Value::as_object).ok_or("harness: keys")?;
    for (entity, set) in keys {
        let mut m = BTreeMap::new();
        for (kid, k) in set.as_object().ok_or("harness: keys set")? {
            let raw = base64::engine::general_purpose::STANDARD
                .decode(k.as_str().ok_or("harness: key str")?)
                .map_err(|e| format!("harness: key b64 {e}"))?;
            m.insert(kid.clone(), Base64::new(raw));
        }
        map.insert(entity.clone(), m);
    }
    Ok(map)
}

pub fn dispatch(op: &str, cmd: &Value) -> Option<OpResult> {
    Some(match op {
        "canonical_json" => canonical_json(cmd),
        "redact" => redact_op(cmd),
        "content_hash" => (|| {
            let obj = parse_obj(s(cmd, "text")?)?;
            Ok(res(ruma_signatures::content_hash(&obj).map(|h| h.encode())))
        })(),
        "reference_hash" => (|| {
            let obj = parse_obj(s(cmd, "text")?)?;
            let rules = rules_for(s(cmd, "version")?)?;
            Ok(res(ruma_signatures::reference_hash(&obj, &rules)))
        })(),
        "hashes" => (|| {
            // content hash + reference hash for every listed version, one round trip
            let obj = parse_obj(s(cmd, "text")?)?;
            let mut out = serde_json::Map::new();
            out.insert(
                "content".into(),
                res(ruma_signatures::content_hash(&obj).map(|h| h.encode())),
            );
            let mut refs = serde_json::Map::new();
            for v in cmd.get("versions").and_then(Value::as_array).ok_or("harness: versions")? {
                let v = v.as_str().ok_or("harness: version str")?;
                let rules = rules_for(v)?;
                refs.insert(v.to_owned(), res(ruma_signatures::reference_hash(&obj, &rules)));
            }
            out.insert("reference".into(), Value::Object(refs));
            Ok(Value::Object(out))
        })(),
        "keypair" => (|| {
            let kp = keypair(cmd)?;
            Ok(json!({
                "public_key": base64::engine::general_purpose::STANDARD.encode(kp.public_key()),
                "version": kp.version(),
            }))
        })(),
        "keypair_generate" => (|| {
            let der = Ed25519KeyPair::generate().map_err(|e| e.to_string())?;
            let kp = Ed25519KeyPair::from_der(&der, "g".to_owned()).map_err(|e| e.to_string())?;
            Ok(json!({
                "der_b64": base64::engine::general_purpose::STANDARD.encode(&*der),
                "public_key": base64::engine::general_purpose::STANDARD.encode(kp.public_key()),
            }))
        })(),
        "sign_json" => (|| {
            let kp = keypair(cmd)?;
            let mut obj = parse_obj(s(cmd, "text")?)?;
            let r = ruma_signatures::sign_json(s(cmd, "entity")?, &kp, &mut obj);
            Ok(json!({"result": res(r.map(|()| Value::Null)), "object": obj_string(&obj)}))
        })(),
        "verify_json" => (|| {
            let obj = parse_obj(s(cmd, "text")?)?;
            let keys = key_map(cmd)?;
            Ok(res(ruma_signatures::verify_json(&keys, &obj).map(|()| Value::Null)))
        })(),
        "verify_bytes" => (|| {
            let dec = |k: &str| -> Result<Vec<u8>, String> {
                base64::engine::general_purpose::STANDARD
                    .decode(s(cmd, k)?)
                    .map_err(|e| format!("harness: {k}: {e}"))
            };
            let alg = SigningKeyAlgorithm::from(opt_s(cmd, "algorithm").unwrap_or("ed25519"));
            Ok(res(ruma_signatures::verify_canonical_json_bytes(
                &alg,
                &dec("public_key")?,
                &dec("signature")?,
                &dec("message")?,
            )
            .map(|()| Value::Null)))
        })(),
        "hash_and_sign_event" => (|| {
            let kp = keypair(cmd)?;
            let mut obj = parse_obj(s(cmd, "text")?)?;
            let rules = rules_for(s(cmd, "version")?)?;
            let r = ruma_signatures::hash_and_sign_event(
                s(cmd, "entity")?,
                &kp,
                &mut obj,
                &rules.redaction,
            );
            Ok(json!({"result": res(r.map(|()| Value::Null)), "object": obj_string(&obj)}))
        })(),
        "verify_event" => (|| {
            let obj = parse_obj(s(cmd, "text")?)?;
            let keys = key_map(cmd)?;
            let rules = rules_for(s(cmd, "version")?)?;
            Ok(res(ruma_signatures::verify_event(&keys, &obj, &rules).map(|v| match v {
                Verified::All => "All",
                Verified::Signatures => "Signatures",
            })))
        })(),
        _ => return None,
    })
}

fn canonical_json(cmd: &Value) -> OpResult {
    let text = s(cmd, "text")?;
    let mut out = serde_json::Map::new();

    // (1) Deserialize straight into CanonicalJsonValue, then Display and Serialize.
    match serde_json::from_str::<CanonicalJsonValue>(text) {
        Ok(v) => {
            let display = v.to_string();
            let ser = serde_json::to_string(&v).map_err(|e| format!("serialize: {e}"))?;
            let reparse_equal =
                serde_json::from_str::<CanonicalJsonValue>(&ser).map(|v2| v2 == v).unwrap_or(false);
            out.insert(
                "de".into(),
                json!({"ok": ser, "display": display, "reparse_equal": reparse_equal}),
            );
            // (4) ruma_signatures::canonical_json for objects
            if let CanonicalJsonValue::Object(o) = &v {
                out.insert("sig".into(), res(ruma_signatures::canonical_json(o)));
            }
        }
        Err(e) => {
            out.insert("de".into(), json!({"err": e.to_string()}));
        }
    }

    // (2)/(3) via serde_json::Value
    match serde_json::from_str::<Value>(text) {
        Ok(v) => {
            out.insert(
                "tcv".into(),
                res(to_canonical_value(&v).map(|c| serde_json::to_string(&c).unwrap_or_default())),
            );
            if let Value::Object(m) = v {
                out.insert(
                    "map".into(),
                    res(try_from_json_map(m).map(|c| serde_json::to_string(&c).unwrap_or_default())),
                );
            }
        }
        Err(e) => {
            out.insert("tcv".into(), json!({"err": format!("json: {e}")}));
        }
    }
    Ok(Value::Object(out))
}

fn redact_op(cmd: &Value) -> OpResult {
    let obj = parse_obj(s(cmd, "text")?)?;
    let rules = rules_for(s(cmd, "version")?)?;
    let because = match opt_s(cmd, "because") {
        Some(t) => Some(parse_obj(t)?),
        None => None,
    };
    let mk = || because.clone().map(RedactedBecause::from_json);

    let copying = redact(obj.clone(), &rules.redaction, mk()).map(|o| obj_string(&o));

    let mut in_place_obj = obj.clone();
    let in_place =
        redact_in_place(&mut in_place_obj, &rules.redaction, mk()).map(|()| obj_string(&in_place_obj));

    // content-only entry point, when there is a string type and an object content
    let content_only = match (obj.get("type"), obj.get("content")) {
        (Some(CanonicalJsonValue::String(t)), Some(CanonicalJsonValue::Object(c))) => {
            let mut c = c.clone();
            Some(res(redact_content_in_place(&mut c, &rules.redaction, t).map(|()| obj_string(&c))))
        }
        _ => None,
    };

    // redacting the redacted copy again
    let twice = match redact(obj.clone(), &rules.redaction, mk()) {
        Ok(once) => Some(res(redact(once, &rules.redaction, mk()).map(|o| obj_string(&o)))),
        Err(_) => None,
    };

    Ok(json!({
        "copying": res(copying),
        "in_place": res(in_place),
        "content_only": content_only,
        "twice": twice,
    }))
}
