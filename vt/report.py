"""Shard reports, merging, evidence files, verdict lines, known findings."""
import collections
import hashlib
import json
import os
import time

from .build import VERIF

MAX_SAMPLES = 12
MAX_VIOLATIONS_KEPT = 400
MAX_PER_CLASS = 6


def h64(*parts):
    m = hashlib.blake2b(digest_size=8)
    for p in parts:
        if isinstance(p, str):
            p = p.encode("utf-8", "surrogatepass")
        elif not isinstance(p, (bytes, bytearray)):
            p = json.dumps(p, sort_keys=True, ensure_ascii=True).encode()
        m.update(p)
        m.update(b"\x00")
    return int.from_bytes(m.digest(), "big")


class ShardReport:
    """What one shard observed. Plain data so that it pickles across processes."""

    def __init__(self):
        self.evaluations = 0            # oracle judgements made
        self.nontrivial = set()         # hashes of distinct non-trivial cases
        self.counters = collections.Counter()
        self.sets = collections.defaultdict(set)   # named sets of observed things (small)
        self.samples = []
        self.violations = []            # dicts: sig, kind, detail, replay
        self.violation_count = 0
        self.inconclusive = []
        self.worker_deaths = 0
        self.ops = 0

    def judged(self, n=1):
        self.evaluations += n

    def case(self, key, nontrivial=True):
        if nontrivial:
            self.nontrivial.add(key if isinstance(key, int) else h64(key))

    def count(self, name, n=1):
        self.counters[name] += n

    def observe(self, setname, value, cap=4000):
        s = self.sets[setname]
        if len(s) < cap:
            s.add(value)

    def sample(self, obj, every=1):
        if len(self.samples) < MAX_SAMPLES:
            self.samples.append(obj)

    def violation(self, kind, key, detail, replay):
        """kind: short class name; key: the specific input / call site that identifies this
        violation (used for known-finding matching); replay: JSON-serialisable witness."""
        self.violation_count += 1
        cls = "%s|%s" % (kind, str(key).split(":")[0])
        self.counters["violation_class:" + cls] += 1
        if self.counters["violation_class:" + cls] <= MAX_PER_CLASS and \
                len(self.violations) < MAX_VIOLATIONS_KEPT:
            self.violations.append({"sig": "%s|%s" % (kind, key), "kind": kind, "cls": cls,
                                    "detail": detail, "replay": replay})

    def inconclusive_item(self, what):
        if len(self.inconclusive) < 50:
            self.inconclusive.append(what)
        self.counters["inconclusive"] += 1

    def merge(self, other):
        self.evaluations += other.evaluations
        self.nontrivial |= other.nontrivial
        self.counters.update(other.counters)
        for k, v in other.sets.items():
            self.sets[k] |= v
        for smp in other.samples:
            if len(self.samples) < MAX_SAMPLES:
                self.samples.append(smp)
        self.violation_count += other.violation_count
        have = collections.Counter(v.get("cls") for v in self.violations)
        for v in other.violations:
            if len(self.violations) < MAX_VIOLATIONS_KEPT and have[v.get("cls")] < MAX_PER_CLASS:
                self.violations.append(v)
                have[v.get("cls")] += 1
        self.inconclusive.extend(other.inconclusive[:50 - len(self.inconclusive)])
        self.worker_deaths += other.worker_deaths
        self.ops += other.ops


def load_known_findings():
    path = os.path.join(VERIF, "known_findings.json")
    if not os.path.exists(path):
        return {"open": [], "fixed": []}
    with open(path) as f:
        return json.load(f)


def finalize(prop, tier, seed, rep, rule, level="exploration", assumptions=(), t0=None,
             extra=None, floors=None, layers=()):
    """Write evidence, print verdict lines, return the exit code.

    floors: dict counter-name -> minimum; a monitor that observed fewer events than its floor is
    a harness failure (exit 2, no VIOLATION line): it decided nothing.
    """
    known = [k for k in load_known_findings().get("open", []) if k.get("property") == prop]
    known_sigs = {k["signature"]: k for k in known}
    new_violations = []
    known_hit = {}
    for v in rep.violations:
        if v["sig"] in known_sigs:
            known_hit[v["sig"]] = known_sigs[v["sig"]]
        else:
            new_violations.append(v)
    # violations beyond the kept cap are by construction unmatched -> counted as new
    overflow = rep.violation_count - len(rep.violations)

    # VERIF_EVIDENCE_DIR: used by the mutant / seeded-change runners, whose runs against a modified
    # tree must not overwrite the evidence of the real tree
    evdir = os.environ.get("VERIF_EVIDENCE_DIR") or os.path.join(VERIF, "evidence")
    os.makedirs(evdir, exist_ok=True)
    os.makedirs(os.path.join(VERIF, "replays"), exist_ok=True)
    lines = []
    for sig, k in known_hit.items():
        lines.append("KNOWN-FINDING: property=%s %s" % (prop, k.get("what", sig)))
    replay_paths = []
    for n, v in enumerate(new_violations):
        path = os.path.join(VERIF, "replays", "%s-%s-%d-%d.json" % (prop, tier, seed, n))
        with open(path, "w") as f:
            json.dump({"property": prop, "tier": tier, "seed": seed, "sig": v["sig"],
                       "kind": v["kind"], "detail": v["detail"], "replay": v["replay"]},
                      f, indent=1, ensure_ascii=True, default=str)
        replay_paths.append(path)
        if n < 60:
            lines.append("VIOLATION property=%s replay=%s" % (prop, path))
            lines.append("  # %s: %s" % (v.get("cls", v["kind"]), str(v["detail"])[:300]))

    floor_failures = []
    for name, minimum in (floors or {}).items():
        have = rep.counters.get(name, 0) if name != "_distinct_nontrivial" else len(rep.nontrivial)
        if have < minimum:
            floor_failures.append("%s: observed %d < floor %d" % (name, have, minimum))

    wall = time.time() - t0 if t0 else 0.0
    coverage = {
        "evaluations": int(rep.evaluations),
        "distinct_nontrivial": len(rep.nontrivial),
        "rule": rule,
        "samples": rep.samples[:MAX_SAMPLES] or ["<none>"],
        "probe_ops": rep.ops,
        "counters": dict(sorted(rep.counters.items())),
        "observed_sets": {k: {"count": len(v), "examples": sorted(map(str, v))[:25]}
                          for k, v in sorted(rep.sets.items())},
        "layers": list(layers),
        "worker_deaths": rep.worker_deaths,
        "inconclusive": rep.inconclusive,
        "known_findings_reproduced": sorted(known_hit),
        "floor_failures": floor_failures,
    }
    if extra:
        coverage.update(extra)
    ev = {
        "property_id": prop,
        "tier": tier,
        "seed": int(seed),
        "level": level,
        "coverage": coverage,
        "assumptions": list(assumptions),
        "wall_s": round(wall, 2),
        "violations": len(new_violations) + overflow,
    }
    with open(os.path.join(evdir, prop + ".json"), "w") as f:
        json.dump(ev, f, indent=1, ensure_ascii=True, default=str)

    for ln in lines:
        print(ln)
    status = "violated" if new_violations else "held on what was observed"
    print("%s %s seed=%d: %s; evaluations=%d distinct_nontrivial=%d probe_ops=%d "
          "violations=%d known=%d inconclusive=%d deaths=%d wall=%.1fs" % (
              prop, tier, seed, status, rep.evaluations, len(rep.nontrivial), rep.ops,
              len(new_violations) + overflow, len(known_hit), rep.counters.get("inconclusive", 0),
              rep.worker_deaths, wall))
    if new_violations:
        return 1
    if floor_failures:
        print("HARNESS-FAILURE property=%s monitor observed too little: %s" % (
            prop, "; ".join(floor_failures)))
        return 2
    return 0
