"""Supervised probe worker processes.

A Worker owns one `probe` subprocess, pipelines commands to it and turns process deaths and
hangs into observable replies:

    {"id":..,"ok":..} | {"id":..,"err":".."} | {"id":..,"panic":"..","at":".."}     from the probe
    {"id":..,"died":"signal 6"}       the process died while this command was in flight
    {"id":..,"hang":true}             confirmed: did not finish alone within HANG_CONFIRM_S
    {"id":..,"inconclusive":"..."}    watchdog fired but could not be confirmed

`harness_error` replies (malformed command, missing argument) raise HarnessError: they are bugs
in this framework, never verdicts about ruma.
"""
import json
import os
import select
import signal
import subprocess
import threading
import time

from . import build

HANG_CONFIRM_S = float(os.environ.get("VERIF_HANG_CONFIRM_S", "120"))


class HarnessError(Exception):
    pass


class Worker:
    def __init__(self, layer="rel", stack_kib=2048, extra_args=()):
        self.layer = layer
        # AddressSanitizer inflates every stack frame with red zones (3-4x for the recursive HTML tree
        # walk): the stated 2 MiB bound is about uninstrumented code, so the asan layer gets 16 MiB and
        # judges memory errors only, not stack depth
        self.stack_kib = stack_kib * 8 if layer.split(":")[0] == "asan" else stack_kib
        self.extra_args = list(extra_args)
        self.proc = None
        self.buf = b""
        self.next_id = 0
        self.deaths = 0
        self.spawns = 0
        self.ops = 0

    # -- process management -------------------------------------------------
    def _spawn(self):
        exe = build.binary(self.layer)
        env = dict(os.environ)
        env.setdefault("RUST_BACKTRACE", "0")
        if self.layer.startswith("asan"):
            env["ASAN_OPTIONS"] = "detect_leaks=0:abort_on_error=1:halt_on_error=1"
        self.proc = subprocess.Popen(
            [exe, "--stack-kib", str(self.stack_kib)] + self.extra_args,
            stdin=subprocess.PIPE, stdout=subprocess.PIPE, stderr=subprocess.PIPE, env=env)
        self.buf = b""
        self.spawns += 1

    def _kill(self):
        if self.proc is not None:
            try:
                self.proc.kill()
            except Exception:
                pass
            try:
                self.proc.wait(timeout=10)
            except Exception:
                pass
            for f in (self.proc.stdin, self.proc.stdout, self.proc.stderr):
                try:
                    f.close()
                except Exception:
                    pass
            self.proc = None

    def close(self):
        self._kill()

    def __enter__(self):
        return self

    def __exit__(self, *a):
        self.close()

    # -- low-level pipelined exchange ---------------------------------------
    def _exchange(self, lines, n_expected, timeout):
        """Write `lines` (bytes, each one command) + FLUSH, read n_expected reply lines.
        Returns (replies_as_bytes_list, status) where status is 'ok', 'eof' or 'timeout'."""
        if self.proc is None or self.proc.poll() is not None:
            self._kill()
            self._spawn()
        proc = self.proc
        payload = b"".join(lines) + b"FLUSH\n"

        def writer():
            try:
                proc.stdin.write(payload)
                proc.stdin.flush()
            except Exception:
                pass

        wt = threading.Thread(target=writer, daemon=True)
        wt.start()
        out = []
        fd = proc.stdout.fileno()
        deadline = time.monotonic() + timeout
        status = "ok"
        while len(out) < n_expected:
            nl = self.buf.find(b"\n")
            if nl >= 0:
                out.append(self.buf[:nl])
                self.buf = self.buf[nl + 1:]
                continue
            remaining = deadline - time.monotonic()
            if remaining <= 0:
                status = "timeout"
                break
            r, _, _ = select.select([fd], [], [], min(remaining, 1.0))
            if not r:
                continue
            chunk = os.read(fd, 1 << 16)
            if not chunk:
                status = "eof"
                break
            self.buf += chunk
        if status == "ok":
            wt.join(timeout=5)
        return out, status

    def _exit_description(self):
        try:
            rc = self.proc.wait(timeout=10)
        except Exception:
            rc = None
        err = b""
        try:
            err = self.proc.stderr.read() or b""
        except Exception:
            pass
        tail = err.decode("utf-8", "replace")[-1500:]
        if rc is None:
            d = "unknown"
        elif rc < 0:
            try:
                d = "signal %d (%s)" % (-rc, signal.Signals(-rc).name)
            except Exception:
                d = "signal %d" % -rc
        else:
            d = "exit %d" % rc
        return d, tail

    # -- public API -----------------------------------------------------------
    def call_many(self, cmds, per_op_timeout=20.0, batch=256):
        """Run commands (dicts without 'id'); returns replies in order."""
        replies = []
        i = 0
        n = len(cmds)
        while i < n:
            chunk = cmds[i:i + batch]
            ids = []
            lines = []
            for c in chunk:
                self.next_id += 1
                c = dict(c)
                c["id"] = self.next_id
                ids.append(self.next_id)
                lines.append(json.dumps(c, ensure_ascii=True).encode() + b"\n")
            raw, status = self._exchange(lines, len(chunk), per_op_timeout + 0.05 * len(chunk))
            got = []
            for k, line in enumerate(raw):
                try:
                    rep = json.loads(line)
                except Exception as e:
                    raise HarnessError("unparsable reply %r: %s" % (line[:200], e))
                if rep.get("id") != ids[k]:
                    raise HarnessError("reply id mismatch: %r vs %r" % (rep.get("id"), ids[k]))
                if "harness_error" in rep:
                    raise HarnessError("%s (command %r)" % (rep["harness_error"], chunk[k]))
                got.append(rep)
            self.ops += len(got)
            replies.extend(got)
            i += len(got)
            if status == "ok":
                continue
            # the command in flight is chunk[len(got)]
            culprit = chunk[len(got)]
            if status == "eof":
                desc, tail = self._exit_description()
                self._kill()
                self.deaths += 1
                replies.append({"id": ids[len(got)], "died": desc, "stderr_tail": tail})
            else:  # timeout: confirm alone with a generous budget
                self._kill()
                replies.append(self._confirm_hang(culprit, ids[len(got)]))
            i += 1
        return replies

    def _confirm_hang(self, cmd, cid):
        self._spawn()
        c = dict(cmd)
        c["id"] = cid
        line = json.dumps(c, ensure_ascii=True).encode() + b"\n"
        t0 = time.monotonic()
        # after three confirmed hangs of this worker the verdict no longer depends on further ones:
        # later candidates get a shorter confirmation so that a tree that hangs often stays checkable
        confirm_s = HANG_CONFIRM_S if getattr(self, "hangs", 0) < 3 else 20
        raw, status = self._exchange([line], 1, confirm_s)
        if status == "ok":
            rep = json.loads(raw[0])
            rep["slow_s"] = round(time.monotonic() - t0, 3)
            rep["watchdog_fired_in_batch"] = True
            return rep
        if status == "eof":
            desc, tail = self._exit_description()
            self._kill()
            self.deaths += 1
            return {"id": cid, "died": desc, "stderr_tail": tail}
        self._kill()
        self.hangs = getattr(self, "hangs", 0) + 1
        return {"id": cid, "hang": True, "confirm_s": confirm_s}

    def call(self, cmd, per_op_timeout=20.0):
        return self.call_many([cmd], per_op_timeout=per_op_timeout)[0]


def run_batch_file(layer, cmds, out_dir, name, runner_prefix=(), timeout=3600, env=None):
    """Run commands through `probe --in --out` (for Miri / valgrind / replay). Returns
    (replies, returncode, stderr_text)."""
    os.makedirs(out_dir, exist_ok=True)
    inp = os.path.join(out_dir, name + ".cmds.jsonl")
    outp = os.path.join(out_dir, name + ".replies.jsonl")
    with open(inp, "w") as f:
        for k, c in enumerate(cmds):
            c = dict(c)
            c["id"] = k + 1
            f.write(json.dumps(c, ensure_ascii=True) + "\n")
    if os.path.exists(outp):
        os.remove(outp)
    exe = build.binary(layer)
    p = subprocess.run(list(runner_prefix) + [exe, "--in", inp, "--out", outp],
                       stdout=subprocess.PIPE, stderr=subprocess.PIPE, timeout=timeout, env=env)
    replies = []
    if os.path.exists(outp):
        with open(outp) as f:
            for line in f:
                line = line.strip()
                if line:
                    replies.append(json.loads(line))
    return replies, p.returncode, p.stderr.decode("utf-8", "replace")


def crash_kind(reply):
    """None for a normal ok/err reply, else 'panic' | 'died' | 'hang' | 'inconclusive'."""
    if "ok" in reply or "err" in reply:
        return None
    for k in ("panic", "died", "hang", "inconclusive"):
        if k in reply:
            return k
    raise HarnessError("unclassifiable reply %r" % (reply,))


def crash_key(reply):
    """Stable identification of a crash: panic location, else the kind of death."""
    if "panic" in reply:
        return "panic@" + (reply.get("at") or "?")
    if "died" in reply:
        return "died:" + reply["died"]
    if "hang" in reply:
        return "hang"
    return "inconclusive"


def handle_crash(rep, reply, replay, context=""):
    """Common treatment: panic/death/hang are violations (C17-style), watchdog-unconfirmed is
    inconclusive. Returns True if the reply was a crash."""
    k = crash_kind(reply)
    if k is None:
        return False
    if k == "inconclusive":
        rep.inconclusive_item({"what": reply, "replay": replay})
        return True
    rep.violation(k, crash_key(reply) + (":" + context if context else ""),
                  {k2: v for k2, v in reply.items() if k2 != "id"}, replay)
    return True
