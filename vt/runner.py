"""Runs a monitor's shards in parallel processes and merges their reports."""
import importlib
import multiprocessing
import os
import random
import sys
import time
import traceback

from . import build
from .report import ShardReport, finalize
from .worker import Worker


class Ctx:
    """Per-shard context handed to a monitor."""

    def __init__(self, prop, tier, seed, shard, nshards, opts=None):
        self.prop = prop
        self.tier = tier
        self.seed = seed
        self.shard = shard
        self.nshards = nshards
        self.opts = opts or {}
        # random part: depends on the seed and the shard
        self.rng = random.Random((seed * 1000003 + shard) & 0xFFFFFFFFFFFF)
        self.rep = ShardReport()
        self._workers = {}

    def worker(self, layer="rel"):
        w = self._workers.get(layer)
        if w is None:
            w = Worker(layer)
            self._workers[layer] = w
        return w

    def mine(self, index):
        """Deterministic partition of a systematic family across shards."""
        return index % self.nshards == self.shard

    def close(self):
        for w in self._workers.values():
            self.rep.worker_deaths += w.deaths
            self.rep.ops += w.ops
            w.close()


def _run_shard(args):
    modname, prop, tier, seed, shard, nshards, opts = args
    mod = importlib.import_module(modname)
    ctx = Ctx(prop, tier, seed, shard, nshards, opts)
    try:
        mod.shard(ctx)
    except Exception:
        ctx.close()
        return ("error", traceback.format_exc())
    ctx.close()
    return ("ok", ctx.rep)


def run(modname, tier, seed, opts=None):
    mod = importlib.import_module(modname)
    prop = mod.PROPERTY
    t0 = time.time()
    layers = mod.layers(tier) if hasattr(mod, "layers") else ["rel"]
    for layer in layers:
        if layer.split(":")[0] in ("rel", "dbg", "asan"):
            build.ensure(layer, quiet=False)
    nshards = int(os.environ.get("VERIF_SHARDS", str(min(16, os.cpu_count() or 4))))
    if hasattr(mod, "shards"):
        nshards = mod.shards(tier, nshards)
    args = [(modname, prop, tier, seed, k, nshards, opts) for k in range(nshards)]
    rep = ShardReport()
    if nshards == 1:
        results = [_run_shard(args[0])]
    else:
        ctxm = multiprocessing.get_context("fork")
        with ctxm.Pool(nshards) as pool:
            results = pool.map(_run_shard, args, chunksize=1)
    errors = [r[1] for r in results if r[0] == "error"]
    if errors:
        sys.stderr.write(errors[0])
        print("HARNESS-FAILURE property=%s %d shard(s) raised" % (prop, len(errors)))
        return 2
    for _, r in results:
        rep.merge(r)
    extra = None
    if hasattr(mod, "post"):
        extra = mod.post(rep, tier, seed)
    return finalize(prop, tier, seed, rep, rule=mod.RULE, level=getattr(mod, "LEVEL", "exploration"),
                    assumptions=getattr(mod, "ASSUMPTIONS", ()), t0=t0, extra=extra,
                    floors=mod.floors(tier) if hasattr(mod, "floors") else None, layers=layers)
