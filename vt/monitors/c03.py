"""C03 — event signatures survive redaction; required signers and hash status enforced."""
import base64
import copy
import json

from ..gen import pdu
from ..ref import ed25519, event_sig as ref, redact as redact_ref
from ..report import h64
from ..worker import handle_crash

PROPERTY = "C03"
RULE = ("for each room version 1-11 x 16 event shapes (member in every membership, third-party "
        "invite, restricted join with a foreign authorising server, create, join_rules, "
        "power_levels, history_visibility, aliases, redaction, message, custom; random extra "
        "top-level/content keys): hash_and_sign_event by every required server in sequence "
        "(result must equal the reference signer bit for bit), then verify_event on the signed "
        "event, on ruma's redacted copy, on single-field mutants classified by the reference "
        "(stripped-but-hashed / kept-by-redaction / unsigned-only / hashes) and on signer-set "
        "variations (each required signature dropped / re-made with a wrong key / keys withheld; "
        "extra valid and bogus signatures of non-required servers). Rules are obtained only "
        "through RoomVersionId::rules(). evaluations = verdicts judged; distinct_nontrivial = "
        "distinct (version, event, variation) triples whose expected verdict is not All")
ASSUMPTIONS = ["reference = vt/ref/event_sig.py on top of the reference canonical JSON, redaction "
               "table and RFC 8032 implementation; required signers as in the server-server spec "
               "(sender's server unless third-party invite; event-ID server in v1-2; authorising "
               "user's server for m.room.member joins from v8)"]

VERSIONS = list(range(1, 12))
SHAPES = ["member:join", "member:invite", "member:leave", "member:ban", "member:knock",
          "member:tpi", "member:restricted", "m.room.create", "m.room.join_rules",
          "m.room.power_levels", "m.room.history_visibility", "m.room.aliases", "m.room.redaction",
          "m.room.message", "x.custom.type", "m.room.third_party_invite"]
SEEDS = {s: bytes([i + 1]) * 32 for i, s in enumerate(pdu.SERVERS + ["other.example", "id.example"])}


def layers(tier):
    return ["rel", "dbg"] if tier == "thorough" else ["rel"]


def floors(tier):
    return {"signed_events": 450, "expect:All": 900, "expect:Signatures": 400, "expect:Err": 1500,
            "redacted_copies": 400, "_distinct_nontrivial": 1500}


def fmt(o):
    return json.dumps(o, sort_keys=True, ensure_ascii=False, separators=(",", ":"))


def b64(b):
    return base64.b64encode(b).decode()


def keymap(servers, override=None):
    out = {}
    for s in servers:
        out[s] = {"ed25519:k1": ed25519.public_key(SEEDS[s])}
    if override:
        out.update(override)
    return out


def keys_cmd(keys):
    return {e: {kid: b64(pk) for kid, pk in m.items()} for e, m in keys.items()}


def make_event(rng, version, shape):
    kw = {}
    if shape.startswith("member:"):
        m = shape.split(":")[1]
        etype = "m.room.member"
        if m == "tpi":
            kw.update(membership="invite", tpi=True)
        elif m == "restricted":
            kw.update(membership="join",
                      authorised="@auth:" + rng.choice(["other.example", "a.example"]))
        else:
            kw.update(membership=m)
            if m != "invite" and rng.random() < 0.3:
                # a third_party_invite value on a non-invite member event (kept, stripped down or
                # dropped by redaction depending on the room version): no signer exemption
                kw.update(tpi=rng.choice([True, "nosigned", "nosigned"]))
            if rng.random() < 0.15:
                # the authorising-user key on a non-join event: not a restricted join
                kw.update(authorised="@auth:other.example")
    else:
        etype = shape
    ev = pdu.pdu(rng, version, etype=etype, extra_top=0.4, extra_content=0.0, **kw)
    ev.pop("hashes", None)
    ev.pop("signatures", None)
    if rng.random() < 0.25:
        # state carried in the event: a hash left over from an earlier version of the event (re-signing
        # after an edit) or copied from another event, possibly next to another algorithm's entry
        ev["hashes"] = {"sha256": base64.b64encode(bytes(rng.getrandbits(8) for _ in range(32))).decode().rstrip("=")}
        if rng.random() < 0.3:
            ev["hashes"]["sha512"] = "c3RhbGU"
    if version <= 2 and rng.random() < 0.5:
        # event ID minted by a different server than the sender's
        ev["event_id"] = "$other:" + rng.choice(pdu.SERVERS)
    # extra (unspecified) content keys, never colliding with keys that carry protocol meaning
    # for signing (the event must stay the kind of event its shape says)
    mk = pdu.Markers(rng)
    mk.n = 1000
    c = ev["content"]
    while rng.random() < 0.4:
        k = rng.choice(pdu.JUNK_KEYS + pdu.ALL_CONTENT_KEYS)
        if k in ("membership", "third_party_invite", "join_authorised_via_users_server"):
            continue
        if k in c:
            continue
        c[k] = mk.leaf()
    return ev


def shard(ctx):
    rng = ctx.rng
    rep = ctx.rep
    reps = 3 if ctx.tier == "quick" else 60
    combos = [(v, s) for v in VERSIONS for s in SHAPES]
    cache = {}
    for ci, (version, shape) in enumerate(combos):
        if not ctx.mine(ci):
            continue
        for inst in range(reps):
            ev = make_event(rng, version, shape)
            required = sorted(ref.required_servers(ev, version))
            signers = list(required)
            sender_server = ref.server_of_user(ev["sender"])
            tpi_without_sender = False
            if shape == "member:tpi":
                # the exemption: half of the third-party invites carry no signature of the
                # sender's server, the others do
                if inst % 2 == 0:
                    tpi_without_sender = sender_server not in signers
                    if not signers:
                        signers = ["other.example"]
                elif sender_server not in signers:
                    signers.append(sender_server)
            elif not signers:
                signers = ["other.example"]
            # ---- sign with ruma, step by step, compare with the reference ----
            cur_text = fmt(ev)
            want = ev
            ok = True
            for s in signers:
                cmd = {"op": "hash_and_sign_event", "text": cur_text, "entity": s,
                       "der_b64": b64(ed25519.pkcs8_v1(SEEDS[s])), "key_version": "k1",
                       "version": str(version)}
                r = ctx.worker("rel").call(cmd)
                rep.judged()
                if handle_crash(rep, r, cmd):
                    ok = False
                    break
                if "ok" not in r or "ok" not in r["ok"]["result"]:
                    rep.violation("hash_and_sign_failed", "v%d:%s" % (version, shape),
                                  {"reply": r, "event": cur_text[:2000]}, cmd)
                    ok = False
                    break
                want = ref.hash_and_sign(s, SEEDS[s], "k1", want, version)
                got = json.loads(r["ok"]["object"])
                if got != want:
                    rep.violation("signed_event_differs_from_reference", "v%d:%s" % (version, shape),
                                  {"want": fmt(want)[:3000], "got": fmt(got)[:3000]}, cmd)
                    ok = False
                    break
                cur_text = r["ok"]["object"]
            if not ok:
                continue
            rep.count("signed_events")
            signed = want
            all_servers = sorted(set(signers) | {"other.example"})
            keys = keymap(all_servers)

            fam = []  # (event, keys, description)
            fam.append((signed, keys, "honest"))
            # --- mutations after signing ---
            red = redact_ref.redact_one(signed, version)
            stripped_top = [k for k in signed if k not in red and k not in ("unsigned",)]
            stripped_content = [k for k in signed["content"] if k not in red.get("content", {})]
            kept_content = [k for k in red.get("content", {})]
            for k in stripped_top[:2]:
                m = copy.deepcopy(signed)
                m[k] = "mutated"
                fam.append((m, keys, "mut:stripped-top"))
            for k in stripped_content[:2]:
                m = copy.deepcopy(signed)
                old = m["content"][k]
                # keep the JSON type: the mutant must stay the same kind of event
                m["content"][k] = dict(old, mutated=1) if isinstance(old, dict) else "mutated"
                fam.append((m, keys, "mut:stripped-content"))
            m = copy.deepcopy(signed)
            m["new_top_level_key"] = 1
            fam.append((m, keys, "mut:added-top"))
            m = copy.deepcopy(signed)
            m["content"]["zz_new_content_key"] = 1
            fam.append((m, keys, "mut:added-content"))
            for k in kept_content[:2]:
                m = copy.deepcopy(signed)
                old = m["content"][k]
                if k == "third_party_invite" and isinstance(old, dict):
                    old["signed"] = dict(old.get("signed", {}), mutated=1)   # the kept part
                elif isinstance(old, dict):
                    m["content"][k] = dict(old, mutated=1)
                else:
                    m["content"][k] = "mutated" if old != "mutated" else "mutated2"
                fam.append((m, keys, "mut:kept-content"))
            for k in ("depth", "origin_server_ts"):
                m = copy.deepcopy(signed)
                m[k] = m[k] + 1
                fam.append((m, keys, "mut:kept-top"))
            m = copy.deepcopy(signed)
            m["room_id"] = m["room_id"] + "x"
            fam.append((m, keys, "mut:kept-top"))
            m = copy.deepcopy(signed)
            m["hashes"]["sha256"] = ref.b64u(bytes(32))
            fam.append((m, keys, "mut:hashes"))
            m = copy.deepcopy(signed)
            if "unsigned" in m and rng.random() < 0.5:
                del m["unsigned"]
            else:
                m["unsigned"] = {"age": rng.randint(0, 999), "x": [1]}
            fam.append((m, keys, "mut:unsigned-only"))
            # unsigned keys that carry meaning elsewhere (a client-facing redaction marker, previous
            # content, a transaction id): still outside what signatures and hashes cover
            m = copy.deepcopy(signed)
            m["unsigned"] = dict(m.get("unsigned") if isinstance(m.get("unsigned"), dict) else {},
                                 **{rng.choice(["redacted_because", "prev_content", "transaction_id", "m.relations", "replaces_state"]):
                                    rng.choice([{"type": "m.room.redaction", "content": {}, "event_id": "$r", "sender": "@a:b"}, {}, "x", None, 1])})
            fam.append((m, keys, "mut:unsigned-only"))
            # --- signer-set variations ---
            for s in required:
                m = copy.deepcopy(signed)
                del m["signatures"][s]
                fam.append((m, keys, "signer:dropped-required"))
                m = copy.deepcopy(signed)
                m["signatures"][s] = {"ed25519:k1": ref.b64u(
                    ed25519.sign(SEEDS["id.example"], ref.signing_bytes(red)))}
                fam.append((m, keys, "signer:wrong-key"))
                k2 = {e: v for e, v in keys.items() if e != s}
                fam.append((signed, k2, "signer:keys-withheld"))
                m = copy.deepcopy(signed)
                m["signatures"][s] = {"unknownalg:k1": "AAAA"}
                fam.append((m, keys, "signer:unknown-alg-only"))
            if "other.example" not in required:
                m = ref.hash_and_sign("other.example", SEEDS["other.example"], "k1", signed, version)
                fam.append((m, keys, "signer:extra-valid"))
                m = copy.deepcopy(signed)
                m["signatures"]["other.example"] = {"ed25519:k1": ref.b64u(bytes(64))}
                fam.append((m, keys, "signer:extra-bogus-nonrequired"))
            m = copy.deepcopy(signed)
            del m["signatures"]
            fam.append((m, keys, "signer:no-signatures-member"))
            m = copy.deepcopy(signed)
            del m["hashes"]
            fam.append((m, keys, "mut:no-hashes"))

            cmds = [{"op": "verify_event", "text": fmt(e), "version": str(version),
                     "keys": keys_cmd(k)} for e, k, _ in fam]
            # ruma's redacted copy of the signed event
            rcmd = {"op": "redact", "version": str(version), "text": fmt(signed)}
            rr = ctx.worker("rel").call(rcmd)
            if tpi_without_sender and version < 11:
                # Before v11 redaction strips `third_party_invite`, so the redacted copy is an
                # ordinary invite that needs the sender's server signature, which this event
                # never had: no implementation can satisfy "redacted copy verifies" here (the
                # reason v11 keeps third_party_invite.signed). Counted, not judged.
                rep.count("redacted_tpi_without_sender_signature_not_judged")
            elif not handle_crash(rep, rr, rcmd) and "ok" in rr["ok"]["copying"]:
                redacted = json.loads(rr["ok"]["copying"]["ok"])
                fam.append((redacted, keys, "redacted-copy"))
                cmds.append({"op": "verify_event", "text": fmt(redacted), "version": str(version),
                             "keys": keys_cmd(keys)})
                rep.count("redacted_copies")
            for layer in layers(ctx.tier):
                replies = ctx.worker(layer).call_many(cmds)
                for (e, k, d), cmd, r in zip(fam, cmds, replies):
                    if handle_crash(rep, r, cmd, context=d):
                        continue
                    if "ok" not in r:
                        raise RuntimeError("probe error %r on %r" % (r, cmd))
                    got = r["ok"].get("ok", "Err")
                    strict, lenient = ref.verify_event(k, e, version, cache)
                    rep.count("variation:" + d)
                    if strict != lenient:
                        rep.count("grey_not_judged")
                        continue
                    rep.judged()
                    rep.count("expect:" + strict)
                    if strict != "All":
                        rep.case(h64(str(version), cmd["text"], fmt(cmd["keys"])))
                    if d == "redacted-copy" and got == "Err":
                        rep.violation("redacted_copy_fails_verification", "v%d:%s" % (version, shape),
                                      {"event": cmd["text"][:3000], "got": r["ok"]}, cmd)
                    elif got != strict:
                        rep.violation("verify_event_verdict_differs",
                                      "v%d:%s:%s" % (version, shape, d),
                                      {"variation": d, "version": version, "want": strict,
                                       "got": r["ok"], "event": cmd["text"][:3000]}, cmd)
            if inst == 0 and ci % 37 == 0:
                rep.sample({"version": version, "shape": shape, "required": required,
                            "signed": fmt(signed)[:500], "variations": [d for _, _, d in fam]})
