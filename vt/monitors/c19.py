"""C19 — string-valued protocol enums are lossless and forward compatible."""
import json

from ..gen import jsongen
from ..ref.enums_table import ENUMS
from ..report import h64
from ..worker import handle_crash

PROPERTY = "C19"
RULE = ("for each of 44 string enums (ruma-common, ruma-events, ruma-state-res): every spelling the "
        "spec lists, declared aliases, near-misses of each (case changes, prefix/suffix, one-"
        "character edits, surrounding space), wildcard prefixes with arbitrary suffixes, other "
        "enums' spellings, random Unicode and the empty string; each string is converted with "
        "From<&str> and From<String>, printed with AsRef/Display/to_string, (de)serialized with serde and "
        "re-converted; all pairs of converted values are compared with == and cmp; for 23 enums "
        "the unit variants are also enumerated in the adapter and their printed forms compared "
        "with the spec table. m.room.message msgtypes (a tagged-enum discriminator): spec-shaped contents, near-miss and "
        "unknown types, in plain and escaped JSON spellings, must be reported and re-serialized unchanged. evaluations = oracle judgements; distinct_nontrivial = distinct "
        "(enum, string) pairs that are listed spellings, aliases, wildcard forms or near-misses")
ASSUMPTIONS = ["spec spellings / declared aliases transcribed in vt/ref/enums_table.py",
               "'ordering agrees with the string form' is demanded as string order only for enums "
               "whose ordering is defined through their string form; structural orderings must be "
               "lawful total orders consistent with equality"]


def layers(tier):
    return ["rel"]


def shards(tier, n):
    return 8


def floors(tier):
    return {"strings": 8000, "listed_spellings": 200, "pairs_compared": 100000, "variants_checked": 50, "msgtype_texts": 500,
            "_distinct_nontrivial": 5000}


def near_misses(rng, s):
    out = {s.upper(), s.capitalize(), s + " ", " " + s, s + "x", "x" + s, s[:-1], s[1:], s + ".", s.replace("_", "-"),
           s.replace("-", "_"), s.replace(".", "_"), s + "\n", s.swapcase(), s + s}
    for _ in range(4):
        if s:
            i = rng.randrange(len(s))
            out.add(s[:i] + rng.choice("abz_.-1é") + s[i + 1:])
            out.add(s[:i] + s[i + 1:])
            out.add(s[:i] + rng.choice("abz_.-1") + s[i:])
    out.discard(s)
    return sorted(out)


def judge_enum(ctx, name, spec, strings, tags, reply, cmd):
    rep = ctx.rep
    if handle_crash(rep, reply, cmd, context=name):
        return
    if "ok" not in reply:
        raise RuntimeError("probe error %r" % (reply,))
    r = reply["ok"]
    aliases = spec.get("aliases", {})
    listed = set(spec["spellings"])
    canon = []
    for s, tag, it in zip(strings, tags, r["items"]):
        rep.count("strings")
        rep.judged()
        want = aliases.get(s, s)
        canon.append(it["as_str"])
        key = "%s:%r" % (name, s)
        replay = {"op": "enum_conv", "enum": name, "strings": [s]}
        if it["as_str"] != want:
            rep.violation("string_altered", key, {"enum": name, "input": s, "as_str": it["as_str"], "want": want}, replay)
        if it["display"] != it["as_str"]:
            rep.violation("display_differs_from_as_str", key, {"enum": name, "input": s, "item": it}, replay)
        try:
            js = json.loads(it["json"])
        except Exception:
            js = None
        if js != it["as_str"]:
            rep.violation("serde_serialization_differs", key, {"enum": name, "input": s, "item": it}, replay)
        if it["de"].get("ok") != want or not it["de_eq_from"]:
            rep.violation("serde_deserialization_differs", key, {"enum": name, "input": s, "item": it}, replay)
        if it.get("owned_as_str", it["as_str"]) != it["as_str"] or not it.get("owned_eq", True):
            rep.violation("owned_string_conversion_differs", key, {"enum": name, "input": s, "item": it}, replay)
        if it["idem"] != it["as_str"] or not it["idem_eq"]:
            rep.violation("conversion_not_idempotent", key, {"enum": name, "input": s, "item": it}, replay)
        if s in listed:
            rep.count("listed_spellings")
        if tag != "random":
            rep.case(h64(name, s))
    # equality / ordering against the canonical string form
    n = len(r["eq"])
    order = spec.get("order")
    for i in range(n):
        for j in range(n):
            rep.count("pairs_compared")
            want_eq = canon[i] == canon[j]
            if r["eq"][i][j] != want_eq:
                rep.violation("equality_disagrees_with_string_form", "%s:%r:%r" % (name, strings[i], strings[j]),
                              {"enum": name, "a": strings[i], "b": strings[j], "eq": r["eq"][i][j]},
                              {"op": "enum_conv", "enum": name, "strings": [strings[i], strings[j]]})
            if r["ord"] is not None and order:
                o = r["ord"][i][j]
                if (o == 0) != want_eq or o != -r["ord"][j][i]:
                    rep.violation("ordering_inconsistent_with_equality", "%s:%r:%r" % (name, strings[i], strings[j]),
                                  {"enum": name, "a": strings[i], "b": strings[j], "cmp": o, "rev": r["ord"][j][i]},
                                  {"op": "enum_conv", "enum": name, "strings": [strings[i], strings[j]]})
                if order == "string":
                    ws = (canon[i] > canon[j]) - (canon[i] < canon[j])
                    if o != ws:
                        rep.violation("ordering_differs_from_string_order", "%s:%r:%r" % (name, strings[i], strings[j]),
                                      {"enum": name, "a": strings[i], "b": strings[j], "cmp": o, "string_cmp": ws},
                                      {"op": "enum_conv", "enum": name, "strings": [strings[i], strings[j]]})
    if r["ord"] is not None and order:
        rep.judged()
        # transitivity on the sampled matrix
        for i in range(min(n, 16)):
            for j in range(min(n, 16)):
                for k in range(min(n, 16)):
                    if r["ord"][i][j] <= 0 and r["ord"][j][k] <= 0 and r["ord"][i][k] > 0:
                        rep.violation("ordering_not_transitive", "%s" % name,
                                      {"enum": name, "a": strings[i], "b": strings[j], "c": strings[k]}, cmd)
    # enumerated unit variants vs the spec table
    if r.get("variants"):
        rep.judged()
        got = {}
        for v in r["variants"]:
            rep.count("variants_checked")
            got[v["variant"]] = v["as_str"]
            try:
                js = json.loads(v["json"])
            except Exception:
                js = None
            if v["display"] != v["as_str"] or js != v["as_str"] or not v["from_eq"] or not v["de_eq"]:
                rep.violation("variant_does_not_round_trip", "%s:%s" % (name, v["variant"]),
                              {"enum": name, "variant": v}, cmd)
        if set(got.values()) != listed:
            rep.violation("variant_spellings_differ_from_spec", name,
                          {"enum": name, "variants": got, "spec": sorted(listed)}, cmd)


def msgtypes(ctx, w):
    """message types: known ones with spec-shaped content, near-misses and unknown ones with a body, each in
    plain and in escaped JSON spellings; the typed value must report and re-serialize the same string"""
    from ..gen import events as ge
    rng, rep = ctx.rng, ctx.rep
    items = []
    for _ in range(40 if ctx.tier == "quick" else 3000):
        content, _k = ge.message_content(rng)
        content = {k: v for k, v in content.items() if not k.startswith("m.")}      # no relations: only the type matters here
        items.append((content["msgtype"], content))
        for s in near_misses(rng, content["msgtype"])[:3] + [jsongen.rand_string(rng, 8), "org.example.\"quoted\"", "a\\b", "tab\there", "caf\u00e9", ""]:
            items.append((s, {"msgtype": s, "body": "b"}))
    texts, metas = [], []
    for s, c in items:
        for style in (None, "escape_all", "random"):
            try:
                texts.append(jsongen.render(c, rng if style else None, shuffle=bool(style), style=style if style == "escape_all" else None))
            except TypeError:
                continue
            metas.append((s, style))
    for i in range(0, len(texts), 200):
        cmd = {"op": "msgtype_conv", "texts": texts[i:i + 200]}
        r = w.call(cmd)
        if handle_crash(rep, r, cmd, context="msgtype"):
            continue
        for (s, style), text, it in zip(metas[i:i + 200], texts[i:i + 200], r["ok"]):
            rep.count("msgtype_texts")
            rep.judged()
            rep.case(h64("msgtype", text))
            replay = {"op": "msgtype_conv", "texts": [text]}
            if "ok" not in it:
                rep.violation("msgtype_rejected", "%r:%s" % (s, style), {"msgtype": s, "spelling": style, "text": text[:600], "error": it.get("err")}, replay)
            elif it["ok"]["msgtype"] != s or it["ok"]["serialized_msgtype"] != s:
                rep.violation("msgtype_altered", "%r:%s" % (s, style), {"msgtype": s, "spelling": style, "got": it["ok"]}, replay)


def shard(ctx):
    rng = ctx.rng
    rep = ctx.rep
    w = ctx.worker("rel")
    if ctx.shard == 0:
        msgtypes(ctx, w)
    names = sorted(ENUMS)
    all_spellings = sorted({s for e in ENUMS.values() for s in e["spellings"]})
    first = True
    for idx, name in enumerate(names):
        if not ctx.mine(idx):
            continue
        spec = ENUMS[name]
        strings, tags = [], []
        for s in spec["spellings"]:
            strings.append(s)
            tags.append("listed")
        for a in spec.get("aliases", {}):
            strings.append(a)
            tags.append("alias")
        for p in spec.get("wildcards", []):
            sufs = ["abc", "", "x.y", "é", "*", " ", "key.nested", "A" * 40]
            # suffixes built from the enum's own vocabulary: the prefix again (once, twice, cut),
            # other spellings, separators
            sufs += [p, p + "abc", p + p + "k", p[:-1], p[1:], p[:len(p) // 2] + "z", "." + p, p.upper() + "k", ".", "..", "m.", "m"]
            sufs += rng.sample(list(spec["spellings"]), min(4, len(spec["spellings"]))) + rng.sample(all_spellings, 4)
            for suf in sufs:
                strings.append(p + suf)
                tags.append("wildcard")
        for s in list(spec["spellings"]) + list(spec.get("aliases", {})):
            for m in near_misses(rng, s):
                strings.append(m)
                tags.append("near")
        for s in rng.sample(all_spellings, 12):
            strings.append(s)
            tags.append("other-enum")
        nrand = 60 if ctx.tier == "quick" else 20000
        for _ in range(nrand):
            strings.append(jsongen.rand_string(rng, 12))
            tags.append("random")
        strings += ["", "_Custom", "null", "0"]
        tags += ["near"] * 4
        # chunk so that each pairwise matrix (first 40 of a chunk) mixes listed and other strings
        order = list(range(len(strings)))
        rng.shuffle(order)
        B = 40
        for i in range(0, len(order), B):
            ids = order[i:i + B]
            ss = [strings[k] for k in ids]
            tt = [tags[k] for k in ids]
            cmd = {"op": "enum_conv", "enum": name, "strings": ss}
            r = w.call(cmd)
            judge_enum(ctx, name, spec, ss, tt, r, cmd)
            if first and "ok" in r:
                rep.sample({"enum": name, "strings": ss[:6], "items": r["ok"]["items"][:6]})
                first = False
        # one command with exactly the listed spellings + aliases, so their mutual ==/cmp is seen
        ss = list(spec["spellings"]) + list(spec.get("aliases", {}))
        cmd = {"op": "enum_conv", "enum": name, "strings": ss[:40]}
        judge_enum(ctx, name, spec, ss[:40], ["listed"] * len(ss[:40]), w.call(cmd), cmd)
