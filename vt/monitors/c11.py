"""C11 — Matrix URIs round-trip through text and parsing them never panics."""
import json

from ..gen import idgen
from ..gen import jsongen
from ..report import h64
from ..worker import handle_crash

PROPERTY = "C11"
RULE = ("values: every user / room / alias / event identifier the identifier parsers accept from "
        "the C10 seed families plus identifiers salted with reserved characters (% / ? # & = + "
        "space \" < { non-ASCII, %2F %41 lone-% sequences), x 0-4 via servers (ports, IPv6 "
        "literals) x action flag, built through every public constructor (matrix_to_uri*, "
        "matrix_uri*, event URIs, *_via) -> to_string -> parse -> structural dump must equal the "
        "built value. texts: valid URIs of both kinds and mutants (empty/extra path segments, "
        "doubled/leading/trailing '/', stray ? # %, wrong sigil/type pairs, truncated percent "
        "escapes, custom actions with reserved characters): parse must not panic and "
        "parse(format(parse(t))) == parse(t). evaluations = round trips judged; "
        "distinct_nontrivial = distinct values/texts that contain a character needing percent-"
        "encoding, a via list, an action or an event pair, or are mutants of valid URIs")
ASSUMPTIONS = ["the structural dump (kind, ids, via list, action) returned by the adapter is the "
               "URI value; equality of dumps is equality of values"]

SALT = ["%", "%41", "%2F", "%2f", "%zz", "/", "?", "#", "&", "=", "+", " ", "\"", "<", ">", "{", "}", "`",
        "é", "\U0001f600", "%%", "%4", "a%", ";", ",", "@", "!", "$", "'", "(", "*", "|", "\\", "^", "~",
        "[", "]", "\x7f", "\t"]
VIAS = [[], ["a.org"], ["a.org", "b.org:8448"], ["[::1]:8448", "1.2.3.4"], ["x.y", "x.y", "z"],
        ["a-b.c", "d.e:1", "[2001:db8::ff00:42:8329]", "localhost"]]


def layers(tier):
    return ["rel", "dbg"]


def floors(tier):
    return {"built_values": 3000, "texts": 3000, "texts_parsed_ok": 300,
            "_distinct_nontrivial": 3000}


def candidates(rng, tier):
    out = {"user": [], "room": [], "alias": [], "event": []}
    tmap = {"user": "user_id", "room": "room_id", "alias": "room_alias_id", "event": "event_id"}
    for k, t in tmap.items():
        base = [s for s in idgen.valid_seeds(t)]
        sig = idgen.SIGIL[t][0]
        salted = []
        for salt in SALT:
            salted.append("%s%sx:a.org" % (sig, salt))
            salted.append("%sx%s:a.org" % (sig, salt))
            salted.append("%sa%sb%sc:a.org:80" % (sig, salt, salt))
            if k in ("room", "event"):
                salted.append("%sab%scd" % (sig, salt))
        # long identifiers (up to the 255-byte limit) whose URI form is several times longer
        for unit in ("水", "é", " ", "/", "%", "a b/", "?#"):
            for total in (120, 200, 240, 249):
                body = (unit * total).encode()[:total - 7].decode("utf-8", "ignore")
                salted.append("%s%s:a.org" % (sig, body))
        rnd = ["%s%s:a.org" % (sig, jsongen.rand_string(rng, 6).replace(":", "").replace("\x00", ""))
               for _ in range(300 if tier == "quick" else 60000)]
        out[k] = base + salted + rnd
    return out


def text_family(rng, tier):
    good = [
        "https://matrix.to/#/@alice:example.org", "https://matrix.to/#/%40alice%3Aexample.org",
        "https://matrix.to/#/!room:example.org?via=a.org&via=b.org",
        "https://matrix.to/#/#alias:example.org", "https://matrix.to/#/%23alias:example.org",
        "https://matrix.to/#/!room:example.org/$event:example.org?via=a.org",
        "https://matrix.to/#/!room:example.org/%24acR1l0raoZnm60CBwAVgqbZqoO%2FmYU81xysh1u7XcJk",
        "https://matrix.to/#/$event:example.org/!room:example.org",
        "matrix:u/alice:example.org", "matrix:u/alice:example.org?action=chat",
        "matrix:r/alias:example.org?action=join&via=a.org", "matrix:roomid/room:example.org?via=a.org&via=b.org",
        "matrix:roomid/room:example.org/e/event:example.org", "matrix:r/alias:example.org/e/event",
        "matrix:user/alice:example.org", "matrix:room/alias:example.org", "matrix:roomid/room:example.org/event/ev",
        "matrix:u/alice:example.org?action=custom", "matrix:u/alice:example.org?action=a%26b%3Dc",
        "matrix:u/alice:example.org?action=%20x%23y", "matrix:u/alice:example.org?action=",
        "matrix:u/alice:example.org?action=a+b", "matrix:u/alice:example.org?action=%C3%A9",
        "matrix:u/al%25ice:example.org", "matrix:u/al%2Fice:example.org", "matrix:/u/alice:example.org",
        "matrix:u/alice:example.org/", "matrix://u/alice:example.org",
        "https://matrix.to/#/@al%25ice:example.org", "https://matrix.to/#/@al%2541ice:example.org",
    ]
    out = list(good)
    edits = ["/", "//", "?", "#", "%", "%2", "%zz", "&", "=", "$", "!", "@", "%00", "%ff", "%c3", " ", "\n",
             "?via=", "&via=x", "?action=join", "&action=chat", "/e/", "/$", "/!", "é", ""]
    for gtxt in good:
        n = len(gtxt)
        for _ in range(100 if tier == "quick" else 6000):
            i = rng.randint(0, n)
            e = rng.choice(edits)
            r = rng.random()
            if r < 0.5:
                out.append(gtxt[:i] + e + gtxt[i:])
            elif r < 0.75:
                j = min(n, i + rng.randint(1, 3))
                out.append(gtxt[:i] + gtxt[j:])
            else:
                j = min(n, i + rng.randint(1, 3))
                out.append(gtxt[:i] + e + gtxt[j:])
    # systematic path shapes
    for base in ("https://matrix.to/#", "https://matrix.to/#/", "matrix:", "matrix:/"):
        for segs in ([], [""], ["", ""], ["", "", "$e"], ["$e"], ["!r:a", ""], ["!r:a", "", "$e"],
                     ["$e", "$e"], ["!r:a", "!r:a"], ["@u:a", "$e"], ["u"], ["u", ""], ["u", "", "e", ""],
                     ["roomid", "r:a", "e"], ["roomid", "r:a", "e", ""], ["e", "x"], ["x", "y"],
                     ["r", "a:b", "x", "y"], ["roomid", "", "e", "x"], ["u", "a:b", "u", "c:d"],
                     ["%", "%"], ["%2F", "%24e"], ["!r:a", "%"], ["%21r:a", "%24"]):
            out.append(base + "/".join(segs))
            out.append(base + "/".join(segs) + "?via=a.org")
            out.append(base + "/".join(segs) + "/")
    return out


def dumps_equal(a, b):
    return a.get("id") == b.get("id") and a.get("via") == b.get("via") and \
        a.get("action") == b.get("action")


def shard(ctx):
    rng = ctx.rng
    rep = ctx.rep
    cands = candidates(rng, ctx.tier)
    tmap = {"user": "user_id", "room": "room_id", "alias": "room_alias_id", "event": "event_id"}
    w = ctx.worker("rel")
    accepted = {}
    for k, lst in cands.items():
        lst = [s for i, s in enumerate(lst) if ctx.mine(i)] if k != "event" else lst
        replies = w.call_many([{"op": "parse_id", "type": tmap[k], "s": s} for s in lst])
        acc = []
        for s, r in zip(lst, replies):
            if "ok" in r and "ok" in r["ok"]["forms"]["borrowed"]:
                acc.append(s)
        accepted[k] = acc
    events = accepted["event"] or ["$e:a.org"]
    builds = []
    for k in ("user", "room", "alias"):
        for s in accepted[k]:
            via = rng.choice(VIAS) if k == "room" else []
            builds.append({"op": "uri_build", "kind": k, "target": s, "via": via,
                           "flag": rng.random() < 0.5})
            if k == "room":
                builds.append({"op": "uri_build", "kind": "room", "target": s, "via": [],
                               "force_via": True, "flag": rng.random() < 0.5})
            if k in ("room", "alias") and rng.random() < 0.7:
                builds.append({"op": "uri_build", "kind": "event" if k == "room" else "alias_event",
                               "target": s, "event": rng.choice(events),
                               "via": rng.choice(VIAS) if k == "room" else [], "flag": False})
    texts = [t for i, t in enumerate(text_family(rng, ctx.tier)) if ctx.mine(i)]
    for layer in layers(ctx.tier):
        wk = ctx.worker(layer)
        replies = wk.call_many(builds)
        for cmd, r in zip(builds, replies):
            rep.count("built_values")
            if handle_crash(rep, r, cmd, context="build"):
                continue
            if "ok" not in r:
                raise RuntimeError("probe error %r for %r" % (r, cmd))
            o = r["ok"]
            nontrivial = bool(cmd.get("via")) or cmd["kind"] in ("event", "alias_event") or cmd["flag"] \
                or any(c in cmd["target"] for c in SALT if c)
            rep.case(h64(json.dumps(cmd, sort_keys=True)), nontrivial)
            for kind in ("matrix_to", "matrix"):
                rep.judged()
                built, back = o[kind], o[kind + "_back"]
                if "err" in back or not dumps_equal(built, back):
                    rep.violation("value_does_not_round_trip", "%s:%s:%s" % (kind, cmd["kind"], cmd["target"][:50]),
                                  {"form": kind, "cmd": cmd, "text": built["text"], "built": built,
                                   "parsed_back": back}, cmd)
                elif back.get("text") != built["text"]:
                    rep.violation("reformat_differs", "%s:%s" % (kind, cmd["target"][:50]),
                                  {"form": kind, "built": built, "parsed_back": back}, cmd)
        cmds = [{"op": "uri_parse", "text": t} for t in texts]
        replies = wk.call_many(cmds)
        for cmd, r in zip(cmds, replies):
            rep.count("texts")
            rep.judged()
            rep.case(h64(cmd["text"]))
            if handle_crash(rep, r, cmd, context="parse"):
                continue
            o = r["ok"]
            for kind in ("matrix_to", "matrix"):
                first, again = o[kind], o[kind + "_again"]
                if "err" in first:
                    continue
                rep.count("texts_parsed_ok")
                rep.judged()
                if again is None or "err" in again or not dumps_equal(first, again):
                    rep.violation("parsed_uri_does_not_round_trip", "%s:%s" % (kind, cmd["text"][:60]),
                                  {"form": kind, "text": cmd["text"], "parsed": first,
                                   "reparsed": again}, cmd)
        if layer == "rel" and ctx.shard == 0:
            for cmd, r in list(zip(builds, replies))[:1]:
                pass
            for cmd in builds[:200:40]:
                rep.sample({"build": cmd})
            for t in texts[:100:25]:
                rep.sample({"text": t})
