"""C02 — JSON signing is interoperable Ed25519 and verification is sound."""
import base64
import copy
import json

from ..gen import jsongen as g
from ..ref import canonjson, ed25519, event_sig as ref
from ..report import h64
from ..worker import handle_crash

PROPERTY = "C02"
RULE = ("signing sequences: random JSON objects (C01 alphabet, with/without unsigned, with "
        "reference-made earlier signatures) signed by 1-4 entities with keys from Python-chosen "
        "seeds (PKCS#8 v1/v2) and from Ed25519KeyPair::generate; after every step the object must "
        "equal the reference signer's output bit for bit (RFC 8032 determinism). Every final "
        "object gets a tamper family (content change/insert/delete/rename at any depth, unsigned-"
        "only edits, key re-ordering/re-spelling, signature and public-key bit flips on decoded "
        "bytes, wrong key version, renamed / added / emptied / unknown-algorithm-only entity, "
        "ill-typed signature, missing keys) judged against the reference verifier; error inputs "
        "check atomic failure. evaluations = judged sign/verify results; distinct_nontrivial = "
        "distinct tampered objects whose expected verdict is 'fail' plus distinct signed objects "
        "with nested content")
ASSUMPTIONS = ["pure-Python RFC 8032 implementation (self-tested on the RFC vectors and the "
               "Matrix spec's signing examples) is the reference",
               "expected 'fail' for a changed message/signature/key under an otherwise valid "
               "triple is taken from the cryptographic assumption (a 10% sample is confirmed "
               "with full curve arithmetic; disagreement is a harness error)",
               "objects where 'all supplied signatures valid' and 'some signature valid' "
               "readings differ are counted, not judged"]

ENTITIES = ["example.org", "a.example", "b.example:8448", "[::1]:8448", "1.2.3.4", "localhost",
            "é.example", "", "signatures", "x" * 40, "domain"]
MUST_FAIL = {"content", "sigbit", "keybit", "sig-int", "sig-null", "sig-array", "sig-bad-base64",
             "sig-short"}
KEY_VERSIONS = ["1", "0", "a_bcDE", "key1", "auto", "1:2", "x" * 30, "é"]


def layers(tier):
    return ["rel", "dbg"] if tier == "thorough" else ["rel"]


def floors(tier):
    return {"sign_steps": 400, "verify_expected_ok": 500, "verify_expected_fail": 2000,
            "atomicity_cases": 100, "generated_keys": 3, "ec_confirmed": 100, "resign_same_key_id": 40, "large_objects": 8,
            "_distinct_nontrivial": 1000}


def fmt(o):
    return json.dumps(o, sort_keys=True, ensure_ascii=False, separators=(",", ":"))


def b64(b):
    return base64.b64encode(b).decode()


class FastVerifier:
    """Reference verifier with a cache of known-good triples; see ASSUMPTIONS."""

    def __init__(self, rng, rep):
        self.good = {}      # (pk, msg) -> sig   produced by the reference signer
        self.cache = {}
        self.rng = rng
        self.rep = rep

    def note_good(self, pk, msg, sig):
        self.good[(pk, msg)] = sig

    def __contains__(self, key):
        pk, msg, sig = key
        if key in self.cache:
            return True
        goodsig = self.good.get((pk, msg))
        if goodsig is not None:
            fast = goodsig == sig
        else:
            # is (pk, sig) a known-good pair for a different message, or is pk unknown?
            fast = False
        if self.rng.random() < 0.1 or goodsig is None and self.rng.random() < 0.3:
            real = ed25519.verify(pk, msg, sig)
            self.rep.count("ec_confirmed")
            if real != fast:
                raise RuntimeError("fast oracle disagrees with RFC 8032 arithmetic")
        self.cache[key] = fast
        return True

    def __getitem__(self, key):
        return self.cache[key]

    def __setitem__(self, key, val):
        self.cache[key] = val


def mutate_content(rng, obj):
    """Returns [(new_obj, description)] edits of signed content (never signatures/unsigned)."""
    out = []
    keys = [k for k in obj if k not in ("signatures", "unsigned")]
    # change a value at random depth
    o = copy.deepcopy(obj)
    if keys:
        path_parent, k = o, rng.choice(keys)
        while isinstance(path_parent[k], (dict, list)) and path_parent[k] and rng.random() < 0.7:
            path_parent = path_parent[k]
            k = rng.choice(sorted(path_parent)) if isinstance(path_parent, dict) else \
                rng.randrange(len(path_parent))
        old = path_parent[k]
        if isinstance(old, bool):
            path_parent[k] = not old
        elif isinstance(old, int):
            path_parent[k] = old + 1 if old < canonjson.MAXI else old - 1
        elif isinstance(old, str):
            path_parent[k] = old + "x"
        elif old is None:
            path_parent[k] = False
        else:
            path_parent[k] = "replaced"
        out.append((o, "change"))
        o = copy.deepcopy(obj)
        del o[rng.choice(keys)]
        out.append((o, "delete"))
        o = copy.deepcopy(obj)
        k = rng.choice(keys)
        o[k + "_renamed"] = o.pop(k)
        out.append((o, "rename"))
    o = copy.deepcopy(obj)
    nk = "inserted"
    while nk in o:
        nk += "_"
    o[nk] = rng.choice([0, "", None, {}, []])
    out.append((o, "insert"))
    return out


def flip(b, bit):
    ba = bytearray(b)
    ba[bit // 8] ^= 1 << (bit % 8)
    return bytes(ba)


def shard(ctx):
    rng = ctx.rng
    rep = ctx.rep
    layer_list = layers(ctx.tier)
    w = ctx.worker("rel")
    fv = FastVerifier(rng, rep)
    n_objects = (320 if ctx.tier == "quick" else 6000) // ctx.nshards
    n_sigbits = 16 if ctx.tier == "quick" else 96

    # keys from Ed25519KeyPair::generate(): seed recovered from the PKCS#8 v2 layout
    gen_keys = []
    if ctx.shard < 4:
        for r in w.call_many([{"op": "keypair_generate"} for _ in range(3)]):
            if handle_crash(rep, r, {"op": "keypair_generate"}):
                continue
            der = base64.b64decode(r["ok"]["der_b64"])
            rep.judged()
            rep.count("generated_keys")
            if len(der) != 83 or der[:16] != bytes.fromhex("3051020101300506032b657004220420"):
                rep.violation("generate_der_shape", "generate", {"der": der.hex()},
                              {"op": "keypair_generate"})
                continue
            seed = der[16:48]
            if b64(ed25519.public_key(seed)) != r["ok"]["public_key"] or der[51:] != ed25519.public_key(seed):
                rep.violation("generated_public_key_mismatch", "generate", {"der": der.hex()},
                              {"op": "keypair_generate"})
            gen_keys.append((seed, der))

    big_sizes = [65534, 65535, 65536, 65537, 70000, 131072, 300000]
    for case_no in range(n_objects):
        obj = g.rand_object(rng, depth=rng.randint(1, 4), width=rng.randint(1, 5))
        obj.pop("signatures", None)
        if case_no < 2 and ctx.shard < len(big_sizes):
            # signing has no size limit (only events have one): large objects around 64 KiB and beyond
            obj.pop("unsigned", None)
            want_size = big_sizes[(ctx.shard + case_no * 3) % len(big_sizes)]
            obj["pad"] = ""
            cur_size = len(canonjson.encode(obj))
            obj["pad"] = "p" * max(0, want_size - cur_size)
            rep.count("large_objects")
        if rng.random() < 0.5:
            obj["unsigned"] = g.rand_value(rng, 2, 3) if rng.random() < 0.5 else {"age": 5}
        else:
            obj.pop("unsigned", None)
        n_ent = rng.randint(1, 4)
        ents = rng.sample(ENTITIES, n_ent)
        signers = []
        for e in ents:
            if gen_keys and rng.random() < 0.15:
                seed, der = rng.choice(gen_keys)
            else:
                seed = bytes(rng.getrandbits(8) for _ in range(32)) if rng.random() < 0.9 else \
                    rng.choice([b"\x00" * 32, b"\xff" * 32, bytes(range(32))])
                der = ed25519.pkcs8_v1(seed) if rng.random() < 0.5 else ed25519.pkcs8_v2(seed)
            signers.append((e, seed, der, rng.choice(KEY_VERSIONS)))
        # pre-existing reference signature by a foreign entity (interop: reference -> ruma)
        pre = None
        if rng.random() < 0.4:
            pseed = bytes(rng.getrandbits(8) for _ in range(32))
            pre = ("pre.example", pseed, "p")
            obj = ref.sign_json(pre[0], pseed, pre[2], obj)
            fv.note_good(ed25519.public_key(pseed), ref.signing_bytes(obj),
                         ref.b64_decode_lenient(obj["signatures"]["pre.example"]["ed25519:p"]))
        # re-signing by the same entity with another key version sometimes
        if rng.random() < 0.3:
            e, seed, der, kv = signers[0]
            signers.append((e, seed, der, kv + "b"))

        # state carried in the object: the same entity signs again under the same key id after a
        # signed field was edited, or after its key was replaced under the same version
        edits = set()
        if rng.random() < 0.35:
            e, seed, der, kv = signers[0]
            if rng.random() < 0.3:
                seed = bytes(rng.getrandbits(8) for _ in range(32))
                der = ed25519.pkcs8_v1(seed)
            else:
                edits.add(len(signers))
            signers.append((e, seed, der, kv))
            rep.count("resign_same_key_id")

        cur = obj
        keys = {}
        if pre:
            keys[pre[0]] = {"ed25519:" + pre[2]: ed25519.public_key(pre[1])}
        ok_chain = True
        for step, (e, seed, der, kv) in enumerate(signers):
            if step in edits:
                cur = copy.deepcopy(cur)
                cur["edited_after_signing"] = rng.randint(0, 10 ** 6)
            text = g.render(cur, rng, dups=False) if rng.random() < 0.5 else fmt(cur)
            cmd = {"op": "sign_json", "text": text, "entity": e, "der_b64": b64(der),
                   "key_version": kv}
            r = w.call(cmd)
            rep.count("sign_steps")
            rep.judged()
            if handle_crash(rep, r, cmd):
                ok_chain = False
                break
            if "ok" not in r:
                raise RuntimeError("probe error %r" % (r,))
            want = ref.sign_json(e, seed, kv, cur)
            pk = ed25519.public_key(seed)
            fv.note_good(pk, ref.signing_bytes(cur),
                         ref.b64_decode_lenient(want["signatures"][e]["ed25519:" + kv]))
            res = r["ok"]["result"]
            got = json.loads(r["ok"]["object"])
            if "ok" not in res:
                rep.violation("sign_failed", "%s|%s" % (e, text[:60]), {"cmd": cmd, "reply": r["ok"]}, cmd)
                ok_chain = False
                break
            if got != want:
                rep.violation("signed_object_differs_from_reference", "%s|%s" % (e, text[:60]),
                              {"want": fmt(want)[:3000], "got": fmt(got)[:3000]}, cmd)
                ok_chain = False
                break
            cur = want
            keys.setdefault(e, {})["ed25519:" + kv] = pk
        if not ok_chain:
            continue
        if g.is_nontrivial(obj):
            rep.case(h64("signed", fmt(cur)))

        # ---------------- verification family ----------------
        fam = []   # (object, keys, description)
        fam.append((cur, keys, "honest"))
        fam.append((cur, keys, "respelled"))
        for o, d in mutate_content(rng, cur):
            fam.append((o, keys, "content:" + d))
        # edits confined to unsigned
        o = copy.deepcopy(cur)
        if "unsigned" in o and rng.random() < 0.5:
            del o["unsigned"]
        else:
            o["unsigned"] = {"changed": rng.randint(0, 999)}
        fam.append((o, keys, "unsigned-only"))
        ent_list = sorted(cur["signatures"])
        victim = rng.choice([e for e, _, _, _ in signers])
        vkid = sorted(cur["signatures"][victim])[0]
        vsig = ref.b64_decode_lenient(cur["signatures"][victim][vkid])
        for bit in rng.sample(range(512), n_sigbits):
            o = copy.deepcopy(cur)
            o["signatures"][victim][vkid] = ref.b64u(flip(vsig, bit))
            fam.append((o, keys, "sigbit:%d" % bit))
        for bit in rng.sample(range(256), max(4, n_sigbits // 4)):
            k2 = copy.deepcopy(keys)
            k2[victim][vkid] = flip(keys[victim][vkid], bit)
            fam.append((cur, k2, "keybit:%d" % bit))
        # wrong key version / missing key
        o = copy.deepcopy(cur)
        o["signatures"][victim]["ed25519:other"] = o["signatures"][victim].pop(vkid)
        fam.append((o, keys, "wrong-key-version"))
        k2 = copy.deepcopy(keys)
        del k2[victim]
        fam.append((cur, k2, "no-keys-for-entity"))
        k2 = copy.deepcopy(keys)
        del k2[victim][vkid]
        fam.append((cur, k2, "key-missing"))
        # entity renamed
        o = copy.deepcopy(cur)
        o["signatures"]["renamed.example"] = o["signatures"].pop(victim)
        fam.append((o, keys, "entity-renamed"))
        # second entity variants
        for desc, sset in (("added-empty", {}), ("added-unknown-alg", {"foo:1": "AAAA"}),
                           ("added-invalid", {"ed25519:1": ref.b64u(bytes(64))}),
                           ("added-nonobject", "x")):
            o = copy.deepcopy(cur)
            o["signatures"]["other.example"] = sset
            k2 = copy.deepcopy(keys)
            k2["other.example"] = {"ed25519:1": ed25519.public_key(b"\x01" * 32)}
            fam.append((o, k2, desc))
        for desc, val in (("sig-int", 5), ("sig-null", None), ("sig-array", ["x"]),
                          ("sig-bad-base64", "!!!not base64"), ("sig-short", "AAAA")):
            o = copy.deepcopy(cur)
            o["signatures"][victim][vkid] = val
            fam.append((o, keys, desc))
        o = copy.deepcopy(cur)
        o["signatures"][victim]["unknownalg:1"] = "AAAA"
        fam.append((o, keys, "extra-unknown-alg"))
        o = copy.deepcopy(cur)
        o["signatures"][victim]["ed25519:second"] = ref.b64u(bytes(64))
        k2 = copy.deepcopy(keys)
        k2[victim]["ed25519:second"] = keys[victim][vkid]
        fam.append((o, k2, "one-valid-one-invalid"))
        if len(ent_list) > 1:
            o = copy.deepcopy(cur)
            del o["signatures"][rng.choice(ent_list)]
            fam.append((o, keys, "entity-removed"))
        o = copy.deepcopy(cur)
        o["signatures"] = {}
        fam.append((o, keys, "signatures-empty"))
        o = copy.deepcopy(cur)
        del o["signatures"]
        fam.append((o, keys, "signatures-absent"))
        o = copy.deepcopy(cur)
        o["signatures"] = "x"
        fam.append((o, keys, "signatures-nonobject"))

        cmds = []
        for o, ks, d in fam:
            text = g.render(o, rng, dups=False) if d == "respelled" or rng.random() < 0.2 else fmt(o)
            cmds.append({"op": "verify_json", "text": text,
                         "keys": {e: {kid: b64(pk) for kid, pk in m.items()} for e, m in ks.items()}})
        for layer in layer_list:
            replies = ctx.worker(layer).call_many(cmds)
            for (o, ks, d), cmd, r in zip(fam, cmds, replies):
                if handle_crash(rep, r, cmd, context=d.split(":")[0]):
                    continue
                if "ok" not in r:
                    raise RuntimeError("probe error %r" % (r,))
                strict, lenient = ref.verify_json(ks, o, fv)
                got_ok = "ok" in r["ok"]
                rep.count("tamper:" + d.split(":")[0])
                if strict != lenient:
                    # strict False, lenient True: another signature of the same entity is still
                    # valid. The property demands failure for changes to content, signature or
                    # key; for the remaining shapes it is silent -> counted, not judged.
                    if d.split(":")[0] not in MUST_FAIL:
                        rep.count("grey_not_judged")
                        continue
                rep.judged()
                if strict:
                    rep.count("verify_expected_ok")
                else:
                    rep.count("verify_expected_fail")
                    rep.case(h64("tamper", cmd["text"], fmt(cmd["keys"])))
                if got_ok != strict:
                    rep.violation("verify_verdict_differs", "%s|%s" % (d.split(":")[0], layer),
                                  {"tamper": d, "expected_ok": strict, "got": r["ok"],
                                   "object": cmd["text"][:3000]}, cmd)
        if case_no < 3 and ctx.shard == 0:
            rep.sample({"signed": fmt(cur)[:400], "signers": [(e, kv) for e, _, _, kv in signers],
                        "tampers": [d for _, _, d in fam][:12]})

        # ---------------- atomicity on error ----------------
        if case_no % 3 == 0:
            e, seed, der, kv = signers[0]
            for desc, bad in (("signatures-nonobject", dict(obj, signatures="oops")),
                              ("signatures-array", dict(obj, signatures=[1])),
                              ("entity-set-nonobject", dict(obj, signatures={e: "oops", "k.example": {"ed25519:1": "AA"}})),
                              ("entity-set-null", dict(obj, signatures={e: None}, unsigned={"keep": 1}))):
                cmd = {"op": "sign_json", "text": fmt(bad), "entity": e, "der_b64": b64(der),
                       "key_version": kv}
                r = w.call(cmd)
                rep.judged()
                rep.count("atomicity_cases")
                if handle_crash(rep, r, cmd):
                    continue
                res = r["ok"]["result"]
                after = json.loads(r["ok"]["object"])
                if "err" in res:
                    if after != bad:
                        rep.violation("sign_error_not_atomic", desc,
                                      {"before": fmt(bad)[:2000], "after": fmt(after)[:2000],
                                       "error": res["err"]}, cmd)
                else:
                    # if the call succeeds, the result must be the reference's (never happens for
                    # these inputs unless the implementation repairs them)
                    rep.violation("sign_accepted_malformed_signatures", desc,
                                  {"before": fmt(bad)[:2000], "after": fmt(after)[:2000]}, cmd)

    # verify_canonical_json_bytes directly, with full curve arithmetic as the oracle
    cmds, exp = [], []
    for _ in range(40 if ctx.tier == "quick" else 300):
        seed = bytes(rng.getrandbits(8) for _ in range(32))
        msg = bytes(rng.getrandbits(8) for _ in range(rng.randint(0, 80)))
        sig = ed25519.sign(seed, msg)
        pk = ed25519.public_key(seed)
        variant = rng.choice(["good", "msg", "sig", "pk", "siglen", "pklen", "alg", "s_plus_L"])
        alg = "ed25519"
        if variant == "msg":
            msg = msg + b"!"
        elif variant == "sig":
            sig = flip(sig, rng.randrange(512))
        elif variant == "pk":
            pk = flip(pk, rng.randrange(256))
        elif variant == "siglen":
            sig = sig[:rng.choice([0, 63])] if rng.random() < 0.5 else sig + b"\x00"
        elif variant == "pklen":
            pk = pk[:31] if rng.random() < 0.5 else pk + b"\x00"
        elif variant == "alg":
            alg = rng.choice(["curve25519", "ed25519x", "", "signed_curve25519"])
        elif variant == "s_plus_L":
            s = int.from_bytes(sig[32:], "little") + ed25519.L
            sig = sig[:32] + s.to_bytes(32, "little") if s < 2 ** 256 else sig
        want = alg == "ed25519" and ed25519.verify(pk, msg, sig)
        rep.count("ec_confirmed")
        cmds.append({"op": "verify_bytes", "algorithm": alg, "public_key": b64(pk),
                     "signature": b64(sig), "message": b64(msg)})
        exp.append((want, variant))
    for cmd, (want, variant), r in zip(cmds, exp, w.call_many(cmds)):
        rep.judged()
        rep.count("verify_bytes:" + variant)
        if handle_crash(rep, r, cmd, context="verify_bytes"):
            continue
        if ("ok" in r["ok"]) != want:
            rep.violation("verify_bytes_verdict_differs", variant,
                          {"want": want, "got": r["ok"], "cmd": cmd}, cmd)
