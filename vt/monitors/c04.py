"""C04 — redaction keeps exactly the spec's keys per room version and is idempotent."""
import json

from ..gen import pdu
from ..gen import jsongen as g
from ..ref import redact as ref
from ..report import h64
from ..worker import handle_crash

PROPERTY = "C04"
RULE = ("(a) exhaustive cell sweep: room version 1-11 x event type (7 special + 6 others) x every "
        "top-level key / content key the spec ever mentions plus junk keys, one event per cell "
        "(with and without redacted_because); (b) random events with arbitrary subsets of "
        "specified and unspecified keys at top level and in content, nested values with unique "
        "markers, third_party_invite in every shape, missing / ill-typed type and content. "
        "evaluations = entry-point judgements (copying, in-place, content-only, twice); "
        "distinct_nontrivial = distinct (version, event) pairs where redaction must remove at "
        "least one key and keep at least one content or non-mandatory key")
ASSUMPTIONS = ["reference table transcribed from the spec (vt/ref/redact.py, DESIGN appendix B)",
               "two corners the spec leaves open are accepted either way: v11 member "
               "third_party_invite without `signed` (dropped or {}), and non-object "
               "third_party_invite in v11 (error or dropped)"]

VERSIONS = list(range(1, 12))


def layers(tier):
    return ["rel", "dbg"] if tier == "thorough" else ["rel"]


def floors(tier):
    return {"cells": 4000, "random_events": 2000, "errors_expected": 20,
            "_distinct_nontrivial": 1000}


def cells():
    out = []
    types = pdu.EVENT_TYPES
    for v in VERSIONS:
        for t in types:
            for k in pdu.TOP_KEYS + pdu.JUNK_KEYS:
                if k in ("type", "content"):
                    continue
                out.append((v, {"type": t, k: "marker-" + k}, "top:" + k))
            for k in pdu.ALL_CONTENT_KEYS + pdu.JUNK_KEYS:
                val = "marker-" + k
                if k == "third_party_invite":
                    val = {"display_name": "d", "signed": {"mxid": "@a:b", "token": "t"}}
                out.append((v, {"type": t, "content": {k: val}}, "content:" + k))
    # event types one edit away from a special-cased type are ordinary types: their content is stripped
    special = ["m.room.member", "m.room.create", "m.room.join_rules", "m.room.power_levels", "m.room.aliases",
               "m.room.history_visibility", "m.room.redaction"]
    for v in VERSIONS:
        for t in special:
            last = t.rsplit(".", 1)[1]
            for nt in (last, "m.room.m.room." + last, t + "2", t.upper(), t + ".x", "room." + last, " " + t, t[:-1], "m.room." + last + " ",
                       "m." + last, "m.room", ""):
                for k in CONTENT_KEYS_OF[t] + ["junk"]:
                    val = "marker-" + k
                    if k == "third_party_invite":
                        val = {"display_name": "d", "signed": {"mxid": "@a:b", "token": "t"}}
                    out.append((v, {"type": nt, "content": {k: val}}, "near-miss-type:" + k))
    return out


CONTENT_KEYS_OF = pdu.CONTENT_KEYS


def fmt(o):
    return json.dumps(o, sort_keys=True, ensure_ascii=False, separators=(",", ":"))


def judge(ctx, version, ev, because, reply, tag):
    rep = ctx.rep
    text = fmt(ev)
    replay = {"op": "redact", "version": str(version), "text": text}
    if because is not None:
        replay["because"] = fmt(because)
    if handle_crash(rep, reply, replay):
        return
    if "ok" not in reply:
        raise RuntimeError("unexpected probe error %r for %r" % (reply, text))
    r = reply["ok"]
    expected = ref.redact(ev, version, because)
    exp_ok = [fmt(e) for e in expected if not isinstance(e, ref.RedactError)]
    exp_err = any(isinstance(e, ref.RedactError) for e in expected)
    if exp_err:
        rep.count("errors_expected")

    def norm(x):
        if x is None:
            return None
        if "ok" in x:
            try:
                return ("ok", fmt(json.loads(x["ok"])))
            except Exception:
                return ("ok", "<unparsable>" + x["ok"])
        return ("err", x["err"])

    def acceptable(res):
        if res is None:
            return False
        if res[0] == "ok":
            return res[1] in exp_ok
        return exp_err

    cop, inp = norm(r["copying"]), norm(r["in_place"])
    for name, res in (("copying", cop), ("in_place", inp)):
        rep.judged()
        if not acceptable(res):
            rep.violation("redact_mismatch", "v%d:%s:%s" % (version, ev.get("type"), tag),
                          {"entry": name, "version": version, "event": text, "got": res,
                           "want": exp_ok, "want_err": exp_err}, replay)
    rep.judged()
    if cop != inp and not (cop and inp and cop[0] == "err" and inp[0] == "err"):
        rep.violation("entry_points_disagree", "v%d:%s" % (version, tag),
                      {"copying": cop, "in_place": inp, "event": text}, replay)
    # content-only entry point
    if isinstance(ev.get("type"), str) and isinstance(ev.get("content"), dict):
        rep.judged()
        co = norm(r.get("content_only"))
        wants = ref.redact_content(ev["content"], ev["type"], version)
        ok_c = [fmt(w) for w in wants if not isinstance(w, ref.RedactError)]
        err_c = any(isinstance(w, ref.RedactError) for w in wants)
        if co is None or (co[0] == "ok" and co[1] not in ok_c) or (co[0] == "err" and not err_c):
            rep.violation("content_only_mismatch", "v%d:%s:%s" % (version, ev.get("type"), tag),
                          {"got": co, "want": ok_c, "event": text}, replay)
        # agreement with the whole-event entry point
        if cop and cop[0] == "ok" and co and co[0] == "ok":
            if fmt(json.loads(cop[1]).get("content")) != co[1]:
                rep.violation("content_only_disagrees", "v%d:%s" % (version, tag),
                              {"copying": cop, "content_only": co, "event": text}, replay)
    # idempotence
    if cop and cop[0] == "ok":
        rep.judged()
        tw = norm(r.get("twice"))
        if tw != cop:
            rep.violation("not_idempotent", "v%d:%s:%s" % (version, ev.get("type"), tag),
                          {"once": cop, "twice": tw, "event": text}, replay)
    # non-triviality
    if exp_ok:
        out = json.loads(exp_ok[0])
        removed = len(ev) > len(out) - (1 if because is not None and "unsigned" not in ev else 0) \
            or (isinstance(ev.get("content"), dict) and len(ev["content"]) > len(out.get("content", {})))
        kept = bool(out.get("content")) or len(out) > 1
        if removed and kept:
            rep.case(h64(str(version), text))


def shard(ctx):
    rng = ctx.rng
    work = []  # (version, event, because, tag)
    for i, (v, ev, tag) in enumerate(cells()):
        if ctx.mine(i):
            work.append((v, ev, None, tag))
            ctx.rep.count("cells")
            if i % 7 == 0:
                work.append((v, ev, {"type": "m.room.redaction", "sender": "@m:x", "content": {}},
                             tag + "+because"))
    n = (20000 if ctx.tier == "quick" else 500000) // ctx.nshards
    for _ in range(n):
        v = rng.choice(VERSIONS)
        if rng.random() < 0.5:
            ev = pdu.arbitrary_event(rng)
        else:
            ev = pdu.pdu(rng, v, extra_top=0.5, extra_content=0.6,
                         tpi=rng.choice([None, None, True, "nosigned"]),
                         authorised=rng.choice([None, "@auth:a.example"]))
        r = rng.random()
        if r < 0.03:
            ev.pop("type", None)
        elif r < 0.06:
            ev["type"] = rng.choice([1, None, ["m.room.member"], {}, True])
        because = None
        if rng.random() < 0.3:
            because = {"type": "m.room.redaction", "event_id": "$r", "content": {"reason": "x"},
                       "n": rng.randint(0, 99)}
        ctx.rep.count("random_events")
        work.append((v, ev, because, "random"))
    w = ctx.worker("rel")
    wd = ctx.worker("dbg") if ctx.tier == "thorough" else None
    B = 2000
    for i in range(0, len(work), B):
        chunk = work[i:i + B]
        cmds = []
        for v, ev, because, tag in chunk:
            c = {"op": "redact", "version": str(v), "text": fmt(ev)}
            if because is not None:
                c["because"] = fmt(because)
            cmds.append(c)
        for layer, wk in (("rel", w), ("dbg", wd)):
            if wk is None:
                continue
            replies = wk.call_many(cmds)
            for (v, ev, because, tag), r in zip(chunk, replies):
                judge(ctx, v, ev, because, r, tag)
            if i == 0 and ctx.shard == 0 and layer == "rel":
                for (v, ev, because, tag), r in list(zip(chunk, replies))[::max(1, len(chunk) // 6)]:
                    ctx.rep.sample({"version": v, "event": fmt(ev)[:300], "tag": tag,
                                    "copying": json.dumps(r.get("ok", {}).get("copying"))[:300]})
