"""C15 — HTML sanitization is idempotent and leaves already-clean documents unchanged."""
import json

from ..gen import htmlgen as hg
from ..report import h64
from ..worker import crash_kind, handle_crash
from .c14 import BASE_CONFIGS

PROPERTY = "C15"
RULE = ("idempotence: the C14 inputs (attribute family, random grammar documents incl. malformed "
        "ones, deep chains) under strict / compat +- reply-fallback removal (the "
        "property's scope; builder configurations are exercised in C14 only): sanitize(out) must equal parse-and-reserialize(out), and sanitizing the "
        "same document object twice must equal once. Preservation: documents generated from the "
        "allow-list grammar (blocks, lists, tables, details, inline formatting, links and images "
        "with allowed schemes, spans with data-mx-*, code with language-* classes), kept only if "
        "they are a fixed point of parse->serialize, must come back unchanged in all four base "
        "configurations. Replacement: <font color=.. + allowed span attributes> and <strike> with "
        "clean children must become the documented <span data-mx-color=..> / <s> with children and "
        "remaining attributes preserved. Helper entry points (sanitize_html, remove_html_reply_fallback) on every "
        "fifth document and on tag-free texts (containing > NBSP CR ...): equal to parse + sanitize_with + "
        "to_string under the corresponding configuration, unchanged by a second pass. evaluations = relations judged; distinct_nontrivial = "
        "distinct (document, configuration) pairs whose first pass changed something, plus "
        "distinct clean / replacement documents")
ASSUMPTIONS = ["'well-nested' clean documents are defined as fixed points of the library's own "
               "parse->serialize (checked per document); documents that are not are discarded, "
               "not judged"]


def layers(tier):
    return ["rel", "dbg"] if tier == "thorough" else ["rel"]


def floors(tier):
    return {"idempotence_pairs": 8000, "first_pass_changed": 4000, "clean_documents": 2500,
            "replacement_documents": 400, "helper_documents": 1000, "_distinct_nontrivial": 6000}


def judge_idem(ctx, doc, config, reply, tag):
    rep = ctx.rep
    cmd = {"op": "sanitize", "html": doc, "config": config, "no_trees": True}
    if handle_crash(rep, reply, cmd, context=tag):
        return None
    r = reply["ok"]
    rep.count("idempotence_pairs")
    key = "mode-%s%s:%s" % (config.get("mode"), "+builder" if len(config) > 2 else "", doc[:60])
    rep.judged()
    if r["twice"] != r["reser"]:
        rep.violation("second_pass_changes_output", key,
                      {"input": doc[:1500], "first": r["out"][:1500], "reparsed": r["reser"][:1500],
                       "second": r["twice"][:1500], "config": config}, cmd)
    rep.judged()
    if r["same_object_twice"] != r["out"]:
        rep.violation("same_object_second_pass_differs", key,
                      {"input": doc[:1500], "first": r["out"][:1500],
                       "second": r["same_object_twice"][:1500], "config": config}, cmd)
    if r["out"] != r["in_reser"]:
        rep.count("first_pass_changed")
        rep.case(h64(doc, json.dumps(config, sort_keys=True)))
    return r


def replacement_docs(rng, n):
    out = []
    for _ in range(n):
        attrs = []
        color = rng.choice(["red", "#ff0000", "blue"])
        extra = [(a, "#112233") for a in ("data-mx-bg-color", "data-mx-spoiler", "data-mx-maths") if rng.random() < 0.4]
        inner = "".join(hg.clean_inline(rng, 2, "strict") for _ in range(rng.randint(1, 2)))
        kind = rng.choice(["font", "font", "strike", "nested"])
        if kind == "font":
            src_attrs = [("color", color)] + extra
            want_attrs = sorted([("data-mx-color", color)] + extra)
            src = hg.element("font", src_attrs, inner)
            want = hg.element("span", want_attrs, inner)
        elif kind == "strike":
            src = hg.element("strike", [], inner)
            want = hg.element("s", [], inner)
        else:
            src = hg.element("p", [], hg.element("strike", [], hg.element("font", [("color", color)], inner)))
            want = hg.element("p", [], hg.element("s", [], hg.element("span", [("data-mx-color", color)], inner)))
        out.append((src, want))
    return out


def shard(ctx):
    rng = ctx.rng
    rep = ctx.rep
    work = []
    fam = hg.exhaustive_attribute_family(2)
    for i, doc in enumerate(fam):
        if ctx.mine(i):
            work.append((doc, BASE_CONFIGS[i % 2], "attrfam"))
    n = (60000 if ctx.tier == "quick" else 1500000) // ctx.nshards
    for _ in range(n):
        doc = hg.rand_document(rng, rng.randint(1, 6))
        if rng.random() < 0.1:
            doc = "<mx-reply>r <i>x</i></mx-reply>" + doc
        c = rng.choice(BASE_CONFIGS)
        work.append((doc, c, "random"))
    for _ in range((48 if ctx.tier == "quick" else 480) // ctx.nshards + 1):
        work.append((hg.deep_chain(rng, rng.choice([95, 99, 100, 101, 105, 200])), rng.choice(BASE_CONFIGS), "deep"))
    n_clean = (16000 if ctx.tier == "quick" else 400000) // ctx.nshards
    clean = [(hg.clean_document(rng, m), m) for m in ("strict", "compat") for _ in range(n_clean // 2)]
    repl = replacement_docs(rng, (800 if ctx.tier == "quick" else 20000) // ctx.nshards)
    for layer in layers(ctx.tier):
        w = ctx.worker(layer)
        B = 500
        for i in range(0, len(work), B):
            chunk = work[i:i + B]
            replies = w.call_many([{"op": "sanitize", "html": d, "config": c, "no_trees": True}
                                   for d, c, _ in chunk])
            for (d, c, tag), r in zip(chunk, replies):
                judge_idem(ctx, d, c, r, tag)
        # the helper entry points (sanitize_html, remove_html_reply_fallback) on a sample of the same
        # documents and on tag-free texts: same answer as parse + sanitize_with + to_string with the
        # corresponding configuration, and a second pass through the helper changes nothing
        plain = ["1 > 0", "a\u00a0b", "line\r\nbreak", "\r", "x > y > z", "tab\there", "quote \" ' `", "\u00a0", ">", "a>b\u00a0c\rd",
                 "é\u2028", "\x00", "\x0c", "]]>", "--> text", ""]
        hdocs = [d for d, _, _ in work[::5]] + plain + [rng.choice(plain) + rng.choice(plain) for _ in range(40)]
        hcmds, smeta = [], []
        for d in hdocs:
            mode = rng.choice(["strict", "compat"])
            fb = rng.random() < 0.5
            hcmds.append({"op": "sanitize_html", "html": d, "mode": mode, "remove_reply_fallback": fb})
            smeta.append({"mode": mode, "remove_reply_fallback": fb})
        hrep = w.call_many(hcmds)
        srep = w.call_many([{"op": "sanitize", "html": c["html"], "config": m, "no_trees": True} for c, m in zip(hcmds, smeta)])
        frep = w.call_many([{"op": "sanitize", "html": c["html"], "config": {"remove_reply_fallback": True}, "no_trees": True} for c in hcmds])
        second = []
        for cmd, m, rh, rs, rf in zip(hcmds, smeta, hrep, srep, frep):
            if handle_crash(rep, rh, cmd, context="helper") or crash_kind(rs) or crash_kind(rf):
                second.append(None)
                continue
            rep.count("helper_documents")
            rep.judged(2)
            key = "helper-%s:%s" % (m["mode"], cmd["html"][:60])
            if rh["ok"]["out"] != rs["ok"]["out"]:
                rep.violation("helper_differs_from_sanitize_with", key,
                              {"input": cmd["html"][:2000], "helper": rh["ok"]["out"][:2000], "sanitize_with": rs["ok"]["out"][:2000], "config": m}, cmd)
            if rh["ok"]["remove_html_reply_fallback"] != rf["ok"]["out"]:
                rep.violation("fallback_helper_differs_from_sanitize_with", key,
                              {"input": cmd["html"][:2000], "helper": rh["ok"]["remove_html_reply_fallback"][:2000],
                               "sanitize_with": rf["ok"]["out"][:2000]}, cmd)
            second.append(dict(cmd, html=rh["ok"]["out"]))
            rep.case(h64("helper", cmd["html"], json.dumps(m, sort_keys=True)))
        idx = [i for i, c in enumerate(second) if c is not None]
        reparsed = w.call_many([{"op": "html_parse", "html": second[i]["html"]} for i in idx])
        for i, r2, rp in zip(idx, w.call_many([second[i] for i in idx]), reparsed):
            if handle_crash(rep, r2, second[i], context="helper-second-pass") or crash_kind(rp):
                continue
            rep.judged()
            # (as for sanitize_with: the second pass may only do what re-parsing the output does)
            if r2["ok"]["out"] != rp["ok"]["reser"]:
                rep.violation("helper_second_pass_changes_output", "helper-%s:%s" % (second[i]["mode"], hcmds[i]["html"][:60]),
                              {"input": hcmds[i]["html"][:2000], "first": second[i]["html"][:2000], "second": r2["ok"]["out"][:2000],
                               "first_reparsed": rp["ok"]["reser"][:2000]},
                              {"ops": [hcmds[i], second[i]]})
        # pinned witness of the recorded finding (known_findings.json): content hoisted out of a removed
        # <template> directly into <table> re-parses with an implied tbody / tr, two levels deeper, and
        # at the depth limit the second pass then removes what the first pass kept
        if ctx.shard == 0 and layer == "rel":
            inner = "<table><template><td><div><span>x</span></div></td></template></table>"
            doc = "<div>" * 95 + inner + "</div>" * 95
            cmd = {"op": "sanitize", "html": doc, "config": {"mode": "strict"}, "no_trees": True}
            r = w.call(cmd)
            rep.judged()
            if not handle_crash(rep, r, cmd, context="pinned") and r["ok"]["twice"] != r["ok"]["reser"]:
                rep.violation("second_pass_changes_output", "pinned-template-in-table-at-depth-limit",
                              {"input": "95 x <div> + " + inner, "first": r["ok"]["out"][470:620], "reparsed": r["ok"]["reser"][470:640],
                               "second": r["ok"]["twice"][470:640]}, cmd)
        # preservation of clean documents
        for i in range(0, len(clean), B):
            chunk = clean[i:i + B]
            cmds = []
            for doc, mode in chunk:
                for fb in (False, True):
                    cmds.append({"op": "sanitize", "html": doc, "no_trees": True,
                                 "config": {"mode": mode, "remove_reply_fallback": fb}})
            replies = w.call_many(cmds)
            for cmd, r in zip(cmds, replies):
                if handle_crash(rep, r, cmd, context="clean"):
                    continue
                o = r["ok"]
                if o["in_reser"] != cmd["html"]:
                    rep.count("clean_discarded_not_fixed_point")
                    continue
                rep.count("clean_documents")
                rep.judged()
                rep.case(h64("clean", cmd["html"], cmd["config"]["mode"]))
                if o["out"] != cmd["html"]:
                    rep.violation("clean_document_changed", "mode-%s:%s" % (cmd["config"]["mode"], cmd["html"][:60]),
                                  {"input": cmd["html"][:2000], "output": o["out"][:2000],
                                   "config": cmd["config"]}, cmd)
        # documented replacements
        cmds = [{"op": "sanitize", "html": src, "no_trees": True, "config": {"mode": m}}
                for src, _ in repl for m in ("strict", "compat")]
        wants = [want for _, want in repl for _ in (0, 1)]
        for cmd, want, r in zip(cmds, wants, w.call_many(cmds)):
            if handle_crash(rep, r, cmd, context="replacement"):
                continue
            rep.count("replacement_documents")
            rep.judged()
            rep.case(h64("repl", cmd["html"], cmd["config"]["mode"]))
            if r["ok"]["out"] != want:
                rep.violation("deprecated_replacement_wrong", cmd["html"][:60],
                              {"input": cmd["html"][:1500], "want": want[:1500], "got": r["ok"]["out"][:1500]}, cmd)
        if layer == "rel" and ctx.shard == 0:
            rep.sample({"clean_document": clean[0][0][:400]})
            rep.sample({"replacement": {"input": repl[0][0][:300], "want": repl[0][1][:300]}})
            rep.sample({"idempotence_input": work[-1][0][:300], "config": work[-1][1]})
