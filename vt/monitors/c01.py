"""C01 — canonical JSON is the spec's unique, order-independent, lossless encoding.

Monitor: for a value AST V (ground truth) rendered into several spellings T1..Tk, every
observation point of ruma must return exactly the reference encoder's bytes for V (or reject,
when V contains a number canonical JSON cannot represent).
"""
import itertools
import json

from ..gen import jsongen as g
from ..ref import canonjson as ref
from ..report import h64
from ..worker import handle_crash

PROPERTY = "C01"
RULE = ("value ASTs generated in Python (boundary alphabet of control/astral/BMP-edge characters, "
        "integers around +-2^53, tricky key sets) and rendered in >=3 spellings each (key "
        "permutations at every depth, whitespace, escape spellings, earlier duplicate keys); "
        "systematic part: all objects with <=3 keys over a 10-key tricky alphabet in all key "
        "orders, every boundary/unrepresentable number at several depths. evaluations = "
        "(spelling, observation point) judgements; distinct_nontrivial = distinct ASTs that "
        "contain an object with >=2 keys, a non-ASCII/escaped character, a number >=2^31 or an "
        "unrepresentable number")
ASSUMPTIONS = ["reference = Python json.dumps(sort_keys, ensure_ascii=False, separators) as the "
               "spec defines canonical JSON; CPython's str ordering is by code point",
               "the probe's adapter returns ruma's strings unmodified (JSON-escaped on the pipe)"]

SYS_KEYS = ["", "a", "aa", "A", "\ue000", "\U00010000", "\u00e9", "\u0000", "signatures", "unsigned"]


def layers(tier):
    return ["rel", "dbg"] if tier == "thorough" else ["rel"]


def floors(tier):
    return {"valid_spellings": 1500, "rejected_expected": 150, "sig_points": 300,
            "_distinct_nontrivial": 500}


def systematic():
    """Deterministic family, independent of the seed: (AST, list of texts)."""
    out = []
    # all objects with <= 3 keys from SYS_KEYS in all key orders
    for n in range(0, 4):
        for combo in itertools.combinations(range(len(SYS_KEYS)), n):
            v = {SYS_KEYS[i]: i for i in combo}
            texts = []
            for perm in itertools.permutations(combo):
                texts.append("{" + ",".join(g.render_string(SYS_KEYS[i]) + ":" + str(i)
                                            for i in perm) + "}")
            out.append((v, texts))
    # every boundary int and every unrepresentable number at depth 0..3, as value and in array
    for num in g.BOUNDARY_INTS:
        for wrap in range(4):
            v = num
            for d in range(wrap):
                v = {"k%d" % d: v, "z": [v]} if d % 2 == 0 else [v, {"n": v}]
            out.append((v, [g.render(v)]))
    for txt in g.BAD_NUMS:
        for wrap in range(4):
            v = g.BadNum(txt)
            for d in range(wrap):
                v = {"k%d" % d: v, "a": 1} if d % 2 == 0 else [0, v]
            out.append((v, [g.render(v)]))
    # every boundary character alone in a string and in a key, in all escape spellings
    for ch in g.BOUNDARY_CHARS:
        v = {ch: ch, "x" + ch: [ch + "y"]}
        out.append((v, [g.render(v), g.render(v, None, style=None),
                        g.render(v, __import__("random").Random(1), style="escape_all")]))
    return out


def to_plain(v):
    """AST without BadNum -> plain Python value (identity)."""
    return v


def judge(ctx, v, text, reply, spelling_kind):
    rep = ctx.rep
    bad = g.contains_bad(v)
    if handle_crash(rep, reply, {"op": "canonical_json", "text": text}):
        return
    if "ok" not in reply:
        raise RuntimeError("unexpected probe reply %r" % (reply,))
    r = reply["ok"]
    points = ["de", "tcv"] + (["map"] if isinstance(v, dict) else [])
    if bad:
        rep.count("rejected_expected")
        for p in points:
            rep.judged()
            if p in r and "ok" in r[p]:
                rep.violation("accepted_unrepresentable", p + ":" + text[:60],
                              {"point": p, "text": text, "got": r[p]["ok"]},
                              {"op": "canonical_json", "text": text})
        return
    want = ref.encode(v).decode("utf-8")
    rep.count("valid_spellings")
    rep.count("spelling:" + spelling_kind)
    for p in points:
        rep.judged()
        got = r.get(p, {})
        if got.get("ok") != want:
            rep.violation("canonical_mismatch", p + ":" + text[:60],
                          {"point": p, "text": text, "want": want, "got": got},
                          {"op": "canonical_json", "text": text, "want": want})
    # Display == Serialize, lossless re-parse
    rep.judged()
    de = r["de"]
    if "ok" in de:
        if de.get("display") != want:
            rep.violation("display_mismatch", text[:60], {"text": text, "want": want, "got": de},
                          {"op": "canonical_json", "text": text, "want": want})
        if not de.get("reparse_equal"):
            rep.violation("reparse_unequal", text[:60], {"text": text},
                          {"op": "canonical_json", "text": text})
        try:
            back = json.loads(de["ok"])
        except Exception:
            back = "<unparsable>"
        if back != v:
            rep.violation("lossy", text[:60], {"text": text, "back": back},
                          {"op": "canonical_json", "text": text})
    if isinstance(v, dict):
        rep.judged()
        rep.count("sig_points")
        want_sig = ref.encode(ref.without(v, ("signatures", "unsigned"))).decode("utf-8")
        got = r.get("sig", {})
        if got.get("ok") != want_sig:
            rep.violation("signing_canonical_mismatch", text[:60],
                          {"text": text, "want": want_sig, "got": got},
                          {"op": "canonical_json", "text": text, "want_sig": want_sig})


def shard(ctx):
    rng = ctx.rng
    w = ctx.worker("rel")
    wd = ctx.worker("dbg") if ctx.tier == "thorough" else None
    cases = []  # (v, text, spelling_kind)
    for i, (v, texts) in enumerate(systematic()):
        if not ctx.mine(i):
            continue
        for t in texts:
            cases.append((v, t, "systematic"))
    n_values = (20000 if ctx.tier == "quick" else 400000) // ctx.nshards
    nsp = 3 if ctx.tier == "quick" else 4
    for _ in range(n_values):
        bad = 0.25 if rng.random() < 0.2 else 0.0
        if rng.random() < 0.7:
            v = g.rand_object(rng, depth=rng.randint(1, 6), width=rng.randint(1, 7), bad=bad)
        else:
            v = g.rand_value(rng, depth=rng.randint(0, 7), width=rng.randint(1, 6), bad=bad)
        cases.append((v, g.render(v), "plain"))
        for k in range(nsp - 1):
            style = "escape_all" if k == 1 and rng.random() < 0.3 else None
            t = g.render(v, rng, shuffle=True, dups=True, style=style)
            cases.append((v, t, "varied"))
    # renderer cross-check: a renderer bug must be a harness error, never an alarm
    for v, t, kind in cases:
        if not g.contains_bad(v):
            if json.loads(t) != v:
                raise RuntimeError("renderer bug: %r does not parse to %r" % (t, v))
    B = 2000
    for i in range(0, len(cases), B):
        chunk = cases[i:i + B]
        cmds = [{"op": "canonical_json", "text": t} for _, t, _ in chunk]
        replies = w.call_many(cmds)
        for (v, t, kind), r in zip(chunk, replies):
            judge(ctx, v, t, r, kind)
            if g.is_nontrivial(v):
                ctx.rep.case(h64(repr(v)))
        if wd is not None:
            replies = wd.call_many(cmds)
            for (v, t, kind), r in zip(chunk, replies):
                judge(ctx, v, t, r, kind + "/dbg")
        if i == 0 and ctx.shard == 0:
            for (v, t, kind), r in list(zip(chunk, replies))[:200:25]:
                ctx.rep.sample({"text": t[:300], "reply": json.dumps(r.get("ok"))[:400]})
