"""C05 — content hash, reference hash and event IDs are the spec's functions of the event."""
import base64
import copy
import json

from ..gen import pdu
from ..ref import event_sig as ref
from ..ref import redact as redact_ref
from ..ref import canonjson
from ..report import h64
from ..worker import handle_crash

PROPERTY = "C05"
RULE = ("events from the PDU generator (all special event types, extra keys, unsigned/signatures/"
        "hashes present or not) x room versions 1-11; for each: content hash and the reference "
        "hash under every version compared with hashlib.sha256 over the reference canonical JSON "
        "of the reference-stripped / reference-redacted event in the version's base64 alphabet; "
        "hashes.sha256 written by hash_and_sign_event (also over a stale hashes object) compared with the same value; "
        "metamorphic family per event: edits confined to unsigned / signatures / hashes, a "
        "single-field edit of every covered top-level and content field, ruma-redacted copy; "
        "size ladder: canonical size of the hashed portion from 65,530 to 65,540 bytes (ASCII and "
        "multi-byte padding). evaluations = hash values judged; distinct_nontrivial = distinct "
        "(event, version) pairs whose redaction removes something or that sit on the size ladder")
ASSUMPTIONS = ["hashlib.sha256 and Python base64 are correct",
               "events whose complete form exceeds 65,535 bytes only because of unsigned/"
               "signatures are not judged for the size rule (the mechanism measures the hashed "
               "portion)"]
VERSIONS = list(range(1, 12))
VSTR = [str(v) for v in VERSIONS]


def layers(tier):
    return ["rel", "dbg"] if tier == "thorough" else ["rel"]


def floors(tier):
    return {"events": 1500, "stored_hashes_checked": 300, "size_ladder": 200, "mutations_covered": 3000,
            "mutations_uncovered": 1500, "size_errors_expected": 50, "_distinct_nontrivial": 1000}


def fmt(o):
    return json.dumps(o, sort_keys=True, ensure_ascii=False, separators=(",", ":"))


def expected(ev):
    """(content hash | 'PduSize', {version: reference hash | 'PduSize' | 'Err'})"""
    try:
        ch = ref.content_hash(ev)
    except ref.PduSize:
        ch = "PduSize"
    rh = {}
    for v in VERSIONS:
        acc = set()
        for red in redact_ref.redact(ev, v):
            if isinstance(red, redact_ref.RedactError):
                acc.add("Err")
                continue
            data = canonjson.encode(canonjson.without(red, ("signatures", "unsigned")))
            if len(data) > ref.MAX_PDU:
                acc.add("PduSize")
            else:
                import hashlib
                h = hashlib.sha256(data).digest()
                acc.add(ref.b64u(h) if v <= 3 else ref.b64url_u(h))
        rh[str(v)] = acc
    return ch, rh


def norm(x):
    if "ok" in x:
        return x["ok"]
    if "PDU is larger" in x["err"] or "size" in x["err"].lower():
        return "PduSize"
    return "Err"


def judge(ctx, ev, reply, tag):
    rep = ctx.rep
    text = fmt(ev)
    replay = {"op": "hashes", "text": text, "versions": VSTR}
    if handle_crash(rep, reply, replay):
        return None
    if "ok" not in reply:
        raise RuntimeError("unexpected probe error %r" % (reply,))
    r = reply["ok"]
    ch, rh = expected(ev)
    got_ch = norm(r["content"])
    rep.judged()
    if got_ch != ch:
        rep.violation("content_hash_mismatch", tag + ":" + text[:60],
                      {"event": text[:2000], "want": ch, "got": r["content"]}, replay)
    if ch == "PduSize":
        rep.count("size_errors_expected")
    got_rh = {}
    for v in VSTR:
        rep.judged()
        g = norm(r["reference"][v])
        got_rh[v] = g
        if g not in rh[v]:
            rep.violation("reference_hash_mismatch", "v%s:%s:%s" % (v, tag, text[:60]),
                          {"version": v, "event": text[:2000], "want": sorted(rh[v]),
                           "got": r["reference"][v]}, replay)
        if "PduSize" in rh[v]:
            rep.count("size_errors_expected")
    return got_ch, got_rh


def mutations(rng, ev):
    """[(mutated event, class)] class in 'uncovered' (hashes must not change),
    'hashes' (content hash unchanged), 'covered' (content hash must change)."""
    out = []
    for k in ("unsigned", "signatures"):
        m = copy.deepcopy(ev)
        if k in m and rng.random() < 0.5:
            del m[k]
        else:
            m[k] = {"x%d" % rng.randint(0, 9): {"y": "z%d" % rng.randint(0, 999)}}
        out.append((m, "uncovered"))
    # unsigned keys that carry meaning elsewhere (redaction marker, previous content, ...): still not hashed
    m = copy.deepcopy(ev)
    m["unsigned"] = dict(m.get("unsigned") if isinstance(m.get("unsigned"), dict) else {},
                         **{rng.choice(["redacted_because", "prev_content", "transaction_id", "m.relations", "age"]):
                            rng.choice([{"type": "m.room.redaction", "content": {}, "event_id": "$r", "sender": "@a:b"}, {}, "x", None, 1])})
    out.append((m, "uncovered"))
    m = copy.deepcopy(ev)
    m["hashes"] = {"sha256": "AAAA%d" % rng.randint(0, 999)}
    out.append((m, "hashes"))
    keys = [k for k in ev if k not in ("unsigned", "signatures", "hashes")]
    for k in rng.sample(keys, min(3, len(keys))):
        m = copy.deepcopy(ev)
        if isinstance(m[k], str) and k != "type":
            m[k] = m[k] + "x"
        elif isinstance(m[k], int) and not isinstance(m[k], bool):
            m[k] = m[k] + 1
        elif k == "content":
            m[k] = dict(m[k], added_by_mutation=1)
        else:
            continue
        out.append((m, "covered"))
    if isinstance(ev.get("content"), dict) and ev["content"]:
        k = rng.choice(sorted(ev["content"]))
        m = copy.deepcopy(ev)
        del m["content"][k]
        out.append((m, "covered"))
    return out


def size_ladder(rng, version):
    """Events whose hashed portion has canonical size 65,530..65,540."""
    out = []
    for pad_char in ("a", "é", "\U0001f600"):
        for target in range(65530, 65541):
            ev = pdu.pdu(rng, version, etype=rng.choice(["m.room.message", "m.room.create"]),
                         extra_top=0.2, extra_content=0.2)
            ev.pop("unsigned", None)
            # content-hash portion
            base = len(canonjson.encode(canonjson.without(ev, ("unsigned", "signatures", "hashes"))))
            room = target - base - len(',"pad":""')
            w = len(pad_char.encode())
            ev2 = copy.deepcopy(ev)
            ev2["pad"] = pad_char * (room // w) + "b" * (room % w)
            out.append((ev2, "size:content:%d" % target))
            # reference-hash portion: pad a key that survives redaction (prev_events)
            ev3 = copy.deepcopy(ev)
            red = redact_ref.redact_one(ev3, version)
            base = len(canonjson.encode(canonjson.without(red, ("signatures", "unsigned"))))
            pe = list(ev3.get("prev_events", []))
            room = target - base - len(',""') if pe else target - base - len('""')
            pe.append(pad_char * (room // w) + "b" * (room % w))
            ev3["prev_events"] = pe
            out.append((ev3, "size:reference:%d" % target))
    return out


def shard(ctx):
    rng = ctx.rng
    rep = ctx.rep
    w = ctx.worker("rel")
    wd = ctx.worker("dbg") if ctx.tier == "thorough" else None
    n_events = (3300 if ctx.tier == "quick" else 200000) // ctx.nshards
    work = []  # (event, tag, base_index or None, class)
    for i in range(n_events):
        v = VERSIONS[i % 11]
        ev = pdu.pdu(rng, v, tpi=rng.choice([None, None, True, "nosigned"]),
                     authorised=rng.choice([None, "@auth:a.example"]))
        if rng.random() < 0.4:
            ev["hashes"] = {"sha256": "abc", "x": 1}
        if rng.random() < 0.4:
            ev["signatures"] = {"a.example": {"ed25519:1": "sig"}}
        if rng.random() < 0.02:
            ev.pop("type")
        base = len(work)
        work.append((ev, "event", None, None))
        rep.count("events")
        for m, cls in mutations(rng, ev):
            work.append((m, "mut:" + cls, base, cls))
    for i, v in enumerate(VERSIONS):
        if ctx.mine(i):
            for ev, tag in size_ladder(rng, v):
                work.append((ev, tag, None, None))
                rep.count("size_ladder")
                rep.case(h64(tag, str(v), fmt(ev)[:200]))
    B = 500
    for layer, wk in (("rel", w), ("dbg", wd)):
        if wk is None:
            continue
        results = [None] * len(work)
        for i in range(0, len(work), B):
            chunk = work[i:i + B]
            replies = wk.call_many([{"op": "hashes", "text": fmt(ev), "versions": VSTR}
                                    for ev, _, _, _ in chunk])
            for j, ((ev, tag, base, cls), r) in enumerate(zip(chunk, replies)):
                results[i + j] = judge(ctx, ev, r, tag)
        # metamorphic relations between observed executions
        for idx, (ev, tag, base, cls) in enumerate(work):
            if base is None or results[idx] is None or results[base] is None:
                continue
            (ch, rh), (bch, brh) = results[idx], results[base]
            replay = {"ops": [{"op": "hashes", "text": fmt(work[base][0]), "versions": VSTR},
                              {"op": "hashes", "text": fmt(ev), "versions": VSTR}], "class": cls}
            rep.judged()
            if cls == "uncovered":
                rep.count("mutations_uncovered")
                if ch != bch or rh != brh:
                    rep.violation("hash_depends_on_unsigned_or_signatures", fmt(ev)[:80],
                                  {"base": fmt(work[base][0])[:1500], "mutant": fmt(ev)[:1500]}, replay)
            elif cls == "hashes":
                rep.count("mutations_uncovered")
                if ch != bch:
                    rep.violation("content_hash_depends_on_hashes", fmt(ev)[:80],
                                  {"base": fmt(work[base][0])[:1500]}, replay)
            elif cls == "covered":
                rep.count("mutations_covered")
                if ch == bch and ch not in ("PduSize", "Err"):
                    rep.violation("content_hash_insensitive", fmt(ev)[:80],
                                  {"base": fmt(work[base][0])[:1500], "mutant": fmt(ev)[:1500]}, replay)
        if layer != "rel":
            continue
        # hashes.sha256 as written by hash_and_sign_event (40% of the events already carry a stale
        # hashes object, as when an event is signed again after an edit)
        from ..ref import ed25519
        der = base64.b64encode(ed25519.pkcs8_v1(bytes(range(32)))).decode()
        ids = [i for i, x in enumerate(work) if x[1] == "event" and "type" in x[0] and results[i] is not None][::2]
        cmds = [{"op": "hash_and_sign_event", "text": fmt(work[k][0]), "entity": "a.example", "der_b64": der,
                 "key_version": "1", "version": str(VERSIONS[k % 11]), "tolerant": True} for k in ids]
        for k, cmd, r in zip(ids, cmds, wk.call_many(cmds)):
            if handle_crash(rep, r, cmd):
                continue
            ch = results[k][0]
            if "ok" not in r or "ok" not in r["ok"].get("result", {}):
                rep.count("hash_and_sign_refused")
                continue
            rep.judged()
            rep.count("stored_hashes_checked")
            got = json.loads(r["ok"]["object"]).get("hashes")
            want_other = {a: b for a, b in work[k][0].get("hashes", {}).items() if a != "sha256"} if isinstance(work[k][0].get("hashes"), dict) else {}
            if not isinstance(got, dict) or got.get("sha256") != ch or {a: b for a, b in got.items() if a != "sha256"} != want_other:
                rep.violation("stored_content_hash_differs", "v%d" % VERSIONS[k % 11],
                              {"event": fmt(work[k][0])[:2000], "stored": got, "content_hash": ch}, cmd)
        # reference hash unchanged by ruma's own redaction
        base_idx = [i for i, x in enumerate(work) if x[1] == "event" and "type" in x[0]]
        for i in range(0, len(base_idx), B):
            ids = base_idx[i:i + B]
            vs = [VERSIONS[k % 11] for k in ids]
            red = wk.call_many([{"op": "redact", "version": str(v), "text": fmt(work[k][0])}
                                for k, v in zip(ids, vs)])
            cmds, meta = [], []
            for k, v, r in zip(ids, vs, red):
                if handle_crash(rep, r, {"op": "redact", "text": fmt(work[k][0])}):
                    continue
                c = r["ok"]["copying"]
                if "ok" in c:
                    cmds.append({"op": "hashes", "text": c["ok"], "versions": [str(v)]})
                    meta.append((k, v, c["ok"]))
            replies = wk.call_many(cmds)
            for (k, v, rtext), r in zip(meta, replies):
                if handle_crash(rep, r, {"op": "hashes", "text": rtext}) or results[k] is None:
                    continue
                rep.judged()
                rep.count("redacted_copies")
                got = norm(r["ok"]["reference"][str(v)])
                if got != results[k][1][str(v)]:
                    rep.violation("reference_hash_changed_by_redaction", "v%d:%s" % (v, rtext[:60]),
                                  {"event": fmt(work[k][0])[:1500], "redacted": rtext[:1500],
                                   "before": results[k][1][str(v)], "after": got},
                                  {"ops": [{"op": "redact", "version": str(v), "text": fmt(work[k][0])},
                                           {"op": "hashes", "text": rtext, "versions": [str(v)]}]})
                if len(json.loads(rtext)) < len(work[k][0]):
                    rep.case(h64(str(v), fmt(work[k][0])))
        if ctx.shard == 0:
            for idx in range(0, min(len(work), 60), 12):
                rep.sample({"tag": work[idx][1], "event": fmt(work[idx][0])[:300],
                            "observed": results[idx]})
