"""C16 — endpoint requests and responses survive the HTTP wire format unchanged."""
import itertools
import base64
import json
import urllib.parse

from ..gen import jsongen as g
from ..ref import endpoint as ref
from ..report import h64
from ..worker import handle_crash

PROPERTY = "C16"
RULE = ("(a) four synthetic endpoints defined in the adapter with ruma's real #[request] / "
        "#[response] / metadata! macros cover every field kind (3 path args, query, optional and "
        "multi-valued query, query_all struct, required/optional headers, body fields with "
        "optional/defaulted members, newtype body, raw body): typed values built from arbitrary "
        "Unicode strings (/, %, ?, #, +, &, =, space, empty, non-ASCII, percent sequences) go "
        "value -> HTTP -> router (split on '/', percent-decode) -> value -> HTTP; (b) 38 real "
        "client / federation / appservice / identity / push-gateway endpoints are driven from "
        "generated HTTP messages (HTTP -> value -> HTTP -> value -> HTTP) and their responses "
        "likewise; (c) path selection: every endpoint's version history and random valid histories "
        "x all 2^15 subsets of known Matrix versions (exhaustive) against the reference selection; "
        "(d) authorization header for every AuthScheme x SendAccessToken mode; X-Matrix header "
        "round trips. evaluations = relations judged; distinct_nontrivial = distinct messages with "
        "a reserved character in a path/query field or an optional field present, plus distinct "
        "(history, version subset) pairs whose selection is not the first stable path")
ASSUMPTIONS = ["the adapter's router (split on '/', match a path template of the endpoint, percent-"
               "decode placeholders) stands for 'standard path routing'",
               "value equality is judged on the derived Debug rendering of the request/response "
               "types", "reference path selection in vt/ref/endpoint.py"]

TRICKY = ["", "a", "a/b", "a%41", "%", "%2F", "a?b", "a#b", "a+b", "a&b=c", "a b", "é", "\U0001f600", "a\\b", "..", ".",
          "a;b", "a:b@c", "a,b", "'q'", "\"dq\"", "<x>", "{y}", "`z`", "a|b", "^", "~", "[x]", "100%", "%%", "%zz", "\x7f",
          "a\tb", "=", "&", "?", "#", "+", " "]
TOKEN_MODES = ["if_required", "always", "appservice", "none"]
SCHEMES = ["None", "AccessToken", "AccessTokenOptional", "AppserviceToken", "AppserviceTokenOptional", "ServerSignatures"]


PRESCRIBED_STATUS = {"synth.redirect": 302, "real.sso_login": 302, "synth.created": 201}


def layers(tier):
    return ["rel:api", "dbg:api"] if tier == "thorough" else ["rel:api"]


def shards(tier, n):
    return 16


def floors(tier):
    return {"synthetic_requests": 6000, "synthetic_responses": 1500, "real_requests": 3000, "real_responses": 500, "multipart_responses": 300,
            "path_selections": 32768 * 20, "auth_header_cases": 24, "xmatrix": 300, "_distinct_nontrivial": 20000}


def tricky(rng):
    r = rng.random()
    if r < 0.6:
        return rng.choice(TRICKY)
    if r < 0.8:
        return rng.choice(TRICKY) + rng.choice(TRICKY)
    return g.rand_string(rng, 8).replace("\x00", "")


def header_safe(rng):
    # visible ASCII only: see known finding "non-ASCII header value" (pinned witness below)
    return rng.choice(["text/plain", "application/json; charset=utf-8", "a b", "x=\"y\"", "en-GB,en;q=0.5", "*/*", "~!#$%&'()*+,-./:;<=>?@[]^_`{|}"])


def split_uri(uri):
    rest = uri.split("://", 1)[1]
    pathq = rest[rest.index("/"):]
    path, _, query = pathq.partition("?")
    return path, query


def judge_cycle(rep, r, cmd, tag, meta=None, versions=None, token_mode="if_required", expect_args=None):
    """Common judgement of a request cycle reply."""
    key = "%s:%s" % (cmd.get("endpoint"), tag)
    for k in ("encode_err", "route_err", "decode_err", "route0_err", "decode0_err"):
        if k in r:
            # an error is legitimate only when metadata says so (endpoint removed / no token)
            if k == "encode_err" and meta is not None:
                sel = ref.select_path(meta["history"], versions)
                auth = ref.expected_auth(meta["authentication"], token_mode)
                if sel[0] == "err" or auth == "err":
                    rep.count("encode_error_expected")
                    return False
            rep.violation("wire_round_trip_fails", key, {"step": k, "error": r[k], "reply": {x: r[x] for x in r if x != k},
                                                         "cmd": cmd}, cmd)
            return False
    rep.judged()
    if r["value"] != r["value2"]:
        rep.violation("value_changed_on_the_wire", key, {"before": r["value"][:1500], "after": r["value2"][:1500],
                                                         "http": r["h1"]}, cmd)
    rep.judged()
    if r["h1"] != r["h2"]:
        rep.violation("re_encoding_differs", key, {"h1": r["h1"], "h2": r["h2"]}, cmd)
    if "path_args0" in r and r["path_args0"] != r["path_args"]:
        rep.violation("path_arguments_changed", key, {"before": r["path_args0"], "after": r["path_args"]}, cmd)
    if expect_args is not None and r["path_args"] != expect_args:
        rep.violation("path_arguments_changed", key, {"before": expect_args, "after": r["path_args"], "uri": r["h1"]["uri"]}, cmd)
    if meta is not None:
        rep.judged()
        h1 = r["h1"]
        problems = []
        if h1["method"] != meta["method"]:
            problems.append("method %s, metadata says %s" % (h1["method"], meta["method"]))
        auth = ref.expected_auth(meta["authentication"], token_mode)
        got_auth = [v for k, v in h1["headers"] if k == "authorization"]
        if auth == "bearer" and got_auth != ["Bearer tok"]:
            problems.append("authorization header %r, expected Bearer token" % got_auth)
        if auth is None and got_auth:
            problems.append("unexpected authorization header %r" % got_auth)
        sel = ref.select_path(meta["history"], versions)
        if sel[0] == "ok":
            path, _ = split_uri(h1["uri"])
            tsegs = sel[1].split("/")
            segs = path.split("/")
            if len(tsegs) != len(segs) or any(t != s_ for t, s_ in zip(tsegs, segs) if not t.startswith(":")):
                problems.append("path %r is not an instance of the prescribed %r" % (path, sel[1]))
        else:
            problems.append("metadata prescribes an error (%s) but a message was produced" % sel[1])
        if problems:
            rep.violation("message_differs_from_metadata", key, {"problems": problems, "h1": h1, "versions": versions}, cmd)
    return True


def meta_of(desc):
    return {"method": desc["method"], "authentication": desc["authentication"],
            "history": {"unstable": desc["unstable_paths"], "stable": desc["stable_paths"],
                        "deprecated": desc["deprecated"], "removed": desc["removed"]}}


# --- real endpoints: HTTP message generators ---------------------------------------------------
ROOM = lambda r: r.choice(["!room:example.org", "!a/b:x.org", "!r%41:x.org", "!abcDEF123"])
USER = lambda r: r.choice(["@alice:example.org", "@a/b:x.org", "@a+b=c:x.org:8448", "@a%b:x.org"])
ALIAS = lambda r: r.choice(["#room:example.org", "#a/b?c:x.org", "#ü:x.org", "#a b:x.org", "#%23:x.org"])
EVENT = lambda r: r.choice(["$ev:example.org", "$acR1l0raoZnm60CBwAVgqbZqoO/mYU81xysh1u7XcJk", "$Rqnc-F_iKxU2bZ1CI92-kuZq3a5lr5Zg", "$a+b/c=:x.org"])
ROOM_OR_ALIAS = lambda r: r.choice([ROOM, ALIAS])(r)
STR = tricky
SERVER = lambda r: r.choice(["example.org", "a.b:8448", "[::1]:80"])
MEDIA = lambda r: r.choice(["abc123", "A-b_9"])
KIND = lambda r: r.choice(["override", "underride", "sender", "room", "content"])
EVTYPE = lambda r: r.choice(["m.room.message", "m.room.name", "org.custom/type", "a b", "m.room.member"])
MSG = lambda r: {"msgtype": "m.text", "body": tricky(r)}


def Q(**kw):
    return kw


REAL = {
    # name: (path arg generators, query generator -> list of pairs, body generator or None, headers)
    "client.join_room_by_id": ([ROOM], None, lambda r: r.choice([{}, {"reason": STR(r)}])),
    "client.join_room_by_id_or_alias": ([ROOM_OR_ALIAS], lambda r: [("via", SERVER(r)) for _ in range(r.randint(0, 3))], lambda r: {}),
    "client.leave_room": ([ROOM], None, lambda r: r.choice([{}, {"reason": STR(r)}])),
    "client.invite_user": ([ROOM], None, lambda r: {"user_id": "@bob:x.org", **({"reason": STR(r)} if r.random() < 0.5 else {})}),
    "client.send_message_event": ([ROOM, EVTYPE, STR], None, MSG),
    "client.send_state_event": ([ROOM, EVTYPE, STR], None, lambda r: {"name": STR(r)}),
    "client.get_state_events_for_key": ([ROOM, EVTYPE, STR], None, None),
    "client.get_alias": ([ALIAS], None, None),
    "client.create_alias": ([ALIAS], None, lambda r: {"room_id": "!r:x.org"}),
    "client.get_display_name": ([USER], None, None),
    "client.set_display_name": ([USER], None, lambda r: r.choice([{}, {"displayname": STR(r)}])),
    "client.redact_event": ([ROOM, EVENT, STR], None, lambda r: r.choice([{}, {"reason": STR(r)}])),
    "client.create_typing_event": ([ROOM, USER], None, lambda r: r.choice([{"typing": False}, {"typing": True, "timeout": r.randint(1, 60000)}])),
    "client.set_pushrule_enabled": ([KIND, STR], None, lambda r: {"enabled": r.random() < 0.5}),
    "client.delete_pushrule": ([KIND, STR], None, None),
    "client.get_room_event": ([ROOM, EVENT], None, None),
    "client.get_message_events": ([ROOM], lambda r: [("dir", r.choice(["b", "f"]))] + ([("from", STR(r))] if r.random() < 0.6 else []) +
                                  ([("to", STR(r))] if r.random() < 0.3 else []) + ([("limit", str(r.randint(1, 100)))] if r.random() < 0.5 else []), None),
    "client.get_content": ([SERVER, MEDIA], lambda r: [("timeout_ms", str(r.choice([1, 19999, 20000, 20001, 20500, 20999, 21000, r.randint(1, 99999)])))] if r.random() < 0.7 else [], None),   # around the 20 s default
    "client.send_event_to_device": ([EVTYPE, STR], None, lambda r: {"messages": {"@alice:x.org": {"DEV": {"a": 1}}}}),
    "client.whoami": ([], None, None),
    "client.get_tags": ([USER, ROOM], None, None),
    "client.create_tag": ([USER, ROOM, STR], None, lambda r: r.choice([{}, {"order": 0.5}])),
    "client.set_global_account_data": ([USER, EVTYPE], None, lambda r: {"x": STR(r)}),
    "client.get_room_visibility": ([ROOM], None, None),
    "client.knock_room": ([ROOM_OR_ALIAS], lambda r: [("via", SERVER(r)) for _ in range(r.randint(0, 2))], lambda r: r.choice([{}, {"reason": STR(r)}])),
    "federation.get_event": ([EVENT], None, None),
    "federation.get_profile_information": ([], lambda r: [("user_id", USER(r))] + ([("field", r.choice(["displayname", "avatar_url"]))] if r.random() < 0.5 else []), None),
    "federation.get_room_information": ([], lambda r: [("room_alias", ALIAS(r))], None),
    "federation.get_backfill": ([ROOM], lambda r: [("v", EVENT(r)) for _ in range(r.randint(1, 3))] + [("limit", str(r.randint(1, 100)))], None),
    "federation.create_join_event_template": ([ROOM, USER], lambda r: [("ver", str(v)) for v in r.sample(range(1, 12), r.randint(0, 3))], None),
    "federation.get_room_state_ids": ([ROOM], lambda r: [("event_id", EVENT(r))], None),
    "appservice.query_user_id": ([USER], None, None),
    "appservice.query_room_alias": ([ALIAS], None, None),
    "appservice.send_ping": ([], None, lambda r: r.choice([{}, {"transaction_id": STR(r)}])),
    "identity.get_terms_of_service": ([], None, None),
    "identity.check_public_key_validity": ([], lambda r: [("public_key", r.choice(["abc+/=", "A-b_9"]))], None),
}
RESPONSES = {
    "client.join_room_by_id": lambda r: {"room_id": ROOM(r)},
    "client.send_message_event": lambda r: {"event_id": EVENT(r)},
    "client.send_state_event": lambda r: {"event_id": EVENT(r)},
    "client.get_alias": lambda r: {"room_id": "!r:x.org", "servers": ["a.org", "b.org:1"]},
    "client.get_display_name": lambda r: r.choice([{}, {"displayname": STR(r)}]),
    "client.whoami": lambda r: {"user_id": "@a:x.org", **({"device_id": STR(r)} if r.random() < 0.5 else {}), "is_guest": r.random() < 0.5},
    "client.leave_room": lambda r: {},
    "client.get_room_visibility": lambda r: {"visibility": r.choice(["public", "private"])},
    "federation.get_room_state_ids": lambda r: {"auth_chain_ids": [EVENT(r)], "pdu_ids": [EVENT(r), EVENT(r)]},
    "appservice.send_ping": lambda r: {},
    "identity.check_public_key_validity": lambda r: {"valid": r.random() < 0.5},
}


def quote_q(s):
    return urllib.parse.quote_plus(s, safe="")


def build_http(rng, name, desc):
    args_gen, q_gen, body_gen = REAL[name]
    args = [gfn(rng) for gfn in args_gen]
    paths = desc["unstable_paths"] + [p for _, p in desc["stable_paths"]]
    template = rng.choice(paths)
    path = ref.fill(template, args)
    query = q_gen(rng) if q_gen else []
    uri = "https://homeserver.tld" + path + ("?" + "&".join("%s=%s" % (quote_q(k), quote_q(v)) for k, v in query) if query else "")
    body = body_gen(rng) if body_gen else None
    http = {"method": desc["method"], "uri": uri, "headers": [["content-type", "application/json"]] if body is not None else [],
            "body": json.dumps(body, ensure_ascii=False) if body is not None else ""}
    return http, args


def shard(ctx):
    rng = ctx.rng
    rep = ctx.rep
    for layer in layers(ctx.tier):
        w = ctx.worker(layer)
        lst = w.call({"op": "endpoint_list"})["ok"]
        synth = {d["name"]: meta_of(d) for d in lst["synthetic"]}
        real = {d["name"]: d["meta"] for d in lst["real"]}

        # ---------- (a) synthetic endpoints, from typed values ----------
        n = (8000 if ctx.tier == "quick" else 300000) // ctx.nshards
        cmds, metas = [], []
        for _ in range(n):
            ep = rng.choice(sorted(synth))
            versions = rng.sample(ref.ALL_VERSIONS, rng.randint(1, 4))
            token_mode = rng.choice(["if_required", "if_required", "always", "appservice", "none"])
            if ep == "synth.all_kinds":
                a = {"a": tricky(rng), "user": USER(rng), "c": tricky(rng), "q1": tricky(rng), "content_type": header_safe(rng), "s": tricky(rng)}
                if rng.random() < 0.5:
                    a["q2"] = tricky(rng) or "x"      # Some("") : known finding, pinned below
                if rng.random() < 0.6:
                    a["q3"] = [tricky(rng) for _ in range(rng.randint(0, 3))]
                if rng.random() < 0.5:
                    a["lang"] = header_safe(rng)
                if rng.random() < 0.5:
                    a["n"] = rng.choice([0, 1, 2 ** 53 - 1, 42])
                if rng.random() < 0.5:
                    a["list"] = [tricky(rng) for _ in range(rng.randint(0, 3))]
                a["flag"] = rng.random() < 0.5
                args = [a["a"], a["user"], a["c"]]
            elif ep == "synth.query_all":
                a = {"id": tricky(rng), "dir": tricky(rng)}
                if rng.random() < 0.5:
                    a["from"] = tricky(rng) or "x"
                if rng.random() < 0.5:
                    a["limit"] = rng.choice([0, 10, 2 ** 53 - 1])
                if rng.random() < 0.6:
                    a["types"] = [tricky(rng) for _ in range(rng.randint(0, 3))]
                args = [a["id"]]
            elif ep == "synth.newtype_body":
                def payload(d):
                    p = {"a_field": tricky(rng), "numbers": [rng.randint(-5, 5) for _ in range(rng.randint(0, 3))]}
                    if d > 0 and rng.random() < 0.5:
                        p["nested"] = payload(d - 1)
                    return p
                a = {"key": tricky(rng), "payload": payload(3)}
                args = [a["key"]]
            else:
                a = {"data": rng.choice(["", "raw bytes \x00\x01", "{\"json\":1}", "é" * 10])}
                if rng.random() < 0.5:
                    a["filename"] = tricky(rng) or "x"
                if rng.random() < 0.5:
                    a["content_type"] = header_safe(rng)
                args = []
            cmd = {"op": "synth_request", "endpoint": ep, "versions": versions, "token_mode": token_mode, "args": a}
            cmds.append(cmd)
            metas.append((synth[ep], versions, token_mode, args))
        for cmd, (meta, versions, token_mode, args), r in zip(cmds, metas, w.call_many(cmds)):
            rep.count("synthetic_requests")
            if handle_crash(rep, r, cmd, context=cmd["endpoint"]):
                continue
            if "ok" not in r:
                raise RuntimeError("probe error %r for %r" % (r, cmd))
            ok = judge_cycle(rep, r["ok"], cmd, "request", meta, versions, token_mode, expect_args=args)
            s_ = json.dumps(cmd["args"], ensure_ascii=False)
            rep.case(h64(cmd["endpoint"], s_), any(c in s_ for c in "%/?#+&= "))
        # pinned witnesses of the two recorded findings (see known_findings.json)
        if ctx.shard == 0 and layer == "rel:api":
            pinned = [
                ("pinned-empty-optional-query",
                 {"op": "synth_request", "endpoint": "synth.all_kinds", "versions": ["v1.1"], "token_mode": "if_required",
                  "args": {"a": "a", "user": "@alice:example.org", "c": "c", "q1": "q", "q2": "", "content_type": "text/plain", "s": "s"}}),
                ("pinned-non-ascii-header",
                 {"op": "synth_request", "endpoint": "synth.all_kinds", "versions": ["v1.1"], "token_mode": "if_required",
                  "args": {"a": "a", "user": "@alice:example.org", "c": "c", "q1": "q", "content_type": "\u00e9", "s": "s"}}),
            ]
            for tag, cmd in pinned:
                r = w.call(cmd)
                if handle_crash(rep, r, cmd, context=tag):
                    continue
                o = r["ok"]
                rep.judged()
                if any(k in o for k in ("decode_err", "encode_err", "route_err")) or o.get("value") != o.get("value2"):
                    rep.violation("wire_round_trip_fails", "synth.all_kinds:" + tag, {"reply": o, "cmd": cmd}, cmd)
        # synthetic responses
        cmds = []
        for _ in range(n // 4):
            ep = rng.choice(["synth.all_kinds", "synth.newtype_body", "synth.raw_body", "synth.query_all",
                             "synth.redirect", "synth.created", "real.sso_login"])
            if ep == "synth.all_kinds":
                a = {"content_type": header_safe(rng), "value": tricky(rng)}
                if rng.random() < 0.5:
                    a["lang"] = header_safe(rng)
                if rng.random() < 0.5:
                    a["optional_flag"] = rng.random() < 0.5
                if rng.random() < 0.5:
                    a["items"] = [tricky(rng) for _ in range(rng.randint(0, 3))]
            elif ep == "synth.newtype_body":
                a = {"payload": {"a_field": tricky(rng), "numbers": [1, 2], "nested": {"a_field": tricky(rng), "numbers": []}}}
            elif ep == "synth.raw_body":
                a = {"data": rng.choice(["", "bytes", "{}", "é"])}
                if rng.random() < 0.5:
                    a["content_type"] = header_safe(rng)
                if rng.random() < 0.5:
                    a["disposition"] = rng.choice(["inline", "attachment; filename=\"a b.txt\""])
            elif ep in ("synth.redirect", "real.sso_login"):
                # endpoints whose prescribed success status is 302
                a = {"location": rng.choice(["https://sso.example/login?x=1", "/relative", "matrix:u/a:b", ""])}
                if rng.random() < 0.5:
                    a["cookie"] = rng.choice(["a=b", "session=xyz; Path=/; HttpOnly", ""])
            elif ep == "synth.created":
                a = {"value": tricky(rng)}
            else:
                a = {}
            cmds.append({"op": "synth_response", "endpoint": ep, "args": a})
        for cmd, r in zip(cmds, w.call_many(cmds)):
            rep.count("synthetic_responses")
            if handle_crash(rep, r, cmd, context=cmd["endpoint"]):
                continue
            o = r["ok"]
            key = cmd["endpoint"] + ":response"
            bad = [k for k in ("encode_err", "decode_err") if k in o]
            rep.judged()
            if bad:
                rep.violation("wire_round_trip_fails", key, {"reply": o, "cmd": cmd}, cmd)
            elif o["value"] != o["value2"] or o["h1"] != o["h2"]:
                rep.violation("response_changed_on_the_wire", key, {"reply": o}, cmd)
            elif o["h1"]["status"] != PRESCRIBED_STATUS.get(cmd["endpoint"], 200):
                rep.violation("response_status_differs_from_metadata", key, {"reply": o}, cmd)
            rep.case(h64("resp", json.dumps(cmd["args"], ensure_ascii=False)))

        # federation media responses: multipart/mixed with a generated boundary
        cmds = []
        for _ in range(n // 10):
            if rng.random() < 0.25:
                cmds.append({"op": "multipart_response", "location": rng.choice(["https://cdn.example/x", "mxc://a/b", "x"])})
                continue
            raw = bytes(rng.getrandbits(8) for _ in range(rng.randint(0, 40)))
            if rng.random() < 0.5:
                raw = rng.choice([b"", b"\r\n", b"\r\n--", b"--", b"\r\n\r\n", b"\n--abc\r\n", b"Content-Type: x\r\n\r\n"]) + raw + \
                    rng.choice([b"", b"\r\n", b"\r\n--", b"--\r\n"])
            c = {"op": "multipart_response", "file_b64": base64.b64encode(raw).decode()}
            if rng.random() < 0.7:
                c["file_content_type"] = rng.choice(["text/plain", "image/png", "application/octet-stream; charset=x"])
            if rng.random() < 0.6:
                c["filename"] = rng.choice(["a.txt", "my file.txt", "é.png", "a\"b.txt", "x;y"])
            elif rng.random() < 0.5:
                c["no_disposition"] = True
            cmds.append(c)
        for cmd, r in zip(cmds, w.call_many(cmds)):
            rep.count("multipart_responses")
            if handle_crash(rep, r, cmd, context="multipart"):
                continue
            o = r["ok"]
            rep.judged()
            want = "location:" + cmd["location"] if "location" in cmd else "file:%s:" % cmd["file_b64"]
            if "encode_err" in o or not o.get("decoded", "").startswith(want) or \
                    ("file_content_type" in cmd and ("Some(%s)" % json.dumps(cmd["file_content_type"])) not in o["decoded"]):
                rep.violation("multipart_response_changed_on_the_wire", "federation.media", {"reply": {k: str(v)[:600] for k, v in o.items()}, "cmd": cmd}, cmd)
            rep.case(h64("mp", json.dumps(cmd, sort_keys=True)))

        # ---------- (b) real endpoints, from HTTP messages ----------
        cmds, metas = [], []
        nreal = (4000 if ctx.tier == "quick" else 150000) // ctx.nshards
        names = sorted(REAL)
        for i in range(nreal):
            name = names[i % len(names)]
            desc = real[name]
            http, args = build_http(rng, name, desc)
            versions = rng.sample(ref.ALL_VERSIONS, rng.randint(1, 4))
            token_mode = rng.choice(["if_required", "always"])
            cmds.append({"op": "request_cycle", "endpoint": name, "http": http, "versions": versions, "token_mode": token_mode})
            metas.append((meta_of(desc), versions, token_mode, args))
        for cmd, (meta, versions, token_mode, args), r in zip(cmds, metas, w.call_many(cmds)):
            rep.count("real_requests")
            rep.count("real:" + cmd["endpoint"])
            if handle_crash(rep, r, cmd, context=cmd["endpoint"]):
                continue
            if "ok" not in r:
                raise RuntimeError("probe error %r for %r" % (r, cmd))
            judge_cycle(rep, r["ok"], cmd, "request", meta, versions, token_mode, expect_args=args)
            rep.case(h64(cmd["endpoint"], cmd["http"]["uri"], cmd["http"]["body"]), "%" in cmd["http"]["uri"] or "?" in cmd["http"]["uri"])
        cmds = []
        for i in range(nreal // 5):
            name = sorted(RESPONSES)[i % len(RESPONSES)]
            body = RESPONSES[name](rng)
            cmds.append({"op": "response_cycle", "endpoint": name,
                         "http": {"status": 200, "headers": [["content-type", "application/json"]], "body": json.dumps(body, ensure_ascii=False)}})
        for cmd, r in zip(cmds, w.call_many(cmds)):
            rep.count("real_responses")
            if handle_crash(rep, r, cmd, context=cmd["endpoint"]):
                continue
            o = r["ok"]
            rep.judged()
            key = cmd["endpoint"] + ":response"
            bad = [k for k in ("decode0_err", "encode_err", "decode_err") if k in o]
            if bad:
                rep.violation("wire_round_trip_fails", key, {"reply": o, "cmd": cmd}, cmd)
            elif o["value"] != o["value2"] or o["h1"] != o["h2"]:
                rep.violation("response_changed_on_the_wire", key, {"reply": o}, cmd)

        # ---------- (c) path selection, all 2^15 version subsets ----------
        if layer == "rel:api":
            allsubs = []
            for mask in range(1 << 15):
                allsubs.append([ref.ALL_VERSIONS[i] for i in range(15) if mask >> i & 1])
            histories = []
            for name in sorted(set(real) | set(synth)):
                h = meta_of(real[name])["history"] if name in real else synth[name]["history"]
                histories.append(("real:" + name, None, h))
            nh = 24 if ctx.tier == "quick" else 2000
            for k in range(nh):
                r2 = __import__("random").Random(ctx.seed * 977 + k)
                vs = sorted(r2.sample(range(0, 15), r2.randint(0, 4)))
                rest = [v for v in range(15) if not vs or v > vs[-1]]
                h = {"unstable": ["/_u%d/p%d" % (k, i) for i in range(r2.randint(0, 2))],
                     "stable": [["r0.6.1" if v == 0 else "v1.%d" % v, "/_s%d/v%d" % (k, v)] for v in vs]}
                if not h["unstable"] and not h["stable"]:
                    h["unstable"] = ["/_u%d/only" % k]
                if vs and rest and r2.random() < 0.6:
                    dep = r2.choice(rest)
                    h["deprecated"] = "v1.%d" % dep
                    rest2 = [v for v in rest if v > dep]
                    if rest2 and r2.random() < 0.6:
                        h["removed"] = "v1.%d" % r2.choice(rest2)
                histories.append(("random:%d" % k, h, h))
            for hi, (hname, hjson, h) in enumerate(histories):
                if not ctx.mine(hi):
                    continue
                B = 4096
                for i in range(0, len(allsubs), B):
                    chunk = allsubs[i:i + B]
                    if hjson is None:
                        cmd = {"op": "select_path_real", "endpoint": hname.split(":", 1)[1], "version_sets": chunk}
                    else:
                        cmd = {"op": "select_path", "history": hjson, "version_sets": chunk}
                    r = w.call(cmd, per_op_timeout=60)
                    if handle_crash(rep, r, cmd, context="select_path"):
                        continue
                    if "ok" not in r:
                        raise RuntimeError("probe error %r" % (r,))
                    for vs, got in zip(chunk, r["ok"]):
                        rep.count("path_selections")
                        rep.judged()
                        want = ref.select_path(h, vs)
                        if want[0] == "err":
                            okay = "err" in got
                        else:
                            okay = "ok" in got and split_uri(got["ok"])[0].split("/")[:3] == want[1].split("/")[:3] and \
                                len(split_uri(got["ok"])[0].split("/")) == len(want[1].split("/")) and \
                                all(a == b for a, b in zip(split_uri(got["ok"])[0].split("/"), want[1].split("/")) if not b.startswith(":"))
                        if not okay:
                            rep.violation("path_selection_differs", "%s:%s" % (hname, ",".join(vs)[:60]),
                                          {"history": h, "versions": vs, "want": want, "got": got},
                                          {"op": cmd["op"], "endpoint": cmd.get("endpoint"), "history": hjson, "version_sets": [vs]})
                        first_stable = h.get("stable", [[None, None]])[0][1] if h.get("stable") else None
                        rep.case(h64(hname, ",".join(vs)), want != ("ok", first_stable))
            # ---------- (d) authorization header and X-Matrix ----------
            if ctx.shard == 0:
                for scheme, mode in itertools.product(SCHEMES, TOKEN_MODES):
                    cmd = {"op": "auth_header", "scheme": scheme, "token_mode": mode, "token": "tok"}
                    r = w.call(cmd)
                    rep.count("auth_header_cases")
                    rep.judged()
                    if handle_crash(rep, r, cmd, context="auth_header"):
                        continue
                    want = ref.expected_auth(scheme, mode)
                    got = r["ok"]
                    okay = ("err" in got) if want == "err" else (got.get("ok") == ["authorization", "Bearer tok"] if want == "bearer"
                                                                  else ("ok" in got and got["ok"] is None))
                    if not okay:
                        rep.violation("authorization_header_differs", "%s:%s" % (scheme, mode), {"want": want, "got": got}, cmd)
            cmds = []
            for _ in range((600 if ctx.tier == "quick" else 20000) // ctx.nshards + 1):
                cmd = {"op": "xmatrix_build", "origin": rng.choice(["origin.hs.example.com", "a.b:8448", "[::1]:80", "1.2.3.4"]),
                       "key": "ed25519:" + rng.choice(["key1", "a_b", "1", "ABC"]),
                       "sig": rng.choice(["ABCDEA", "dGVzdA", "aGVsbG8gd29ybGQ+Lz8", "A" * 86, "+/+/", "", "AA"])}
                if rng.random() < 0.8:
                    cmd["destination"] = rng.choice(["destination.hs.example.com", "d:1", "[2001:db8::1]"])
                cmds.append(cmd)
            for cmd, r in zip(cmds, w.call_many(cmds)):
                rep.count("xmatrix")
                rep.judged()
                if handle_crash(rep, r, cmd, context="xmatrix"):
                    continue
                o = r["ok"]
                back = o.get("back")
                if back is None or back["origin"] != cmd["origin"] or back["key"] != cmd["key"] or \
                        back["destination"] != cmd.get("destination") or \
                        back["sig"].rstrip("=") != cmd["sig"].rstrip("="):
                    rep.violation("xmatrix_round_trip_fails", cmd["origin"], {"cmd": cmd, "reply": o}, cmd)
            # Content-Disposition values built from parts: what is written must be read back as the same value
            cmds = []
            names = [None, "", "a.txt", "my file.txt", "a\"b", "back\\slash", "semi;colon", "é.png", "\u65e5\u672c.txt", " ", "a=b", "x\ty",
                     "\x01", "%41", "''", "UTF-8''x", "\u2603 snow.txt", "a" * 300]
            for ty in ("inline", "attachment", "form-data", "x-custom"):
                for fn in names:
                    c = {"op": "content_disposition_build", "type": ty}
                    if fn is not None:
                        c["filename"] = fn
                    cmds.append(c)
            for cmd, r in zip(cmds, w.call_many(cmds)):
                rep.count("content_dispositions")
                rep.judged()
                if handle_crash(rep, r, cmd, context="content-disposition"):
                    continue
                o = r["ok"]
                if "type_err" in o:
                    continue
                # control characters cannot be carried by the header: only their removal is tolerated
                fn = cmd.get("filename")
                printable = fn is None or all(ord(ch) >= 0x20 and ord(ch) != 0x7f for ch in fn)
                if "back_err" in o or (printable and (not o["equal"] or o["back_filename"] != fn)):
                    rep.violation("content_disposition_round_trip_fails", "%s:%r" % (cmd["type"], fn), {"cmd": cmd, "reply": o}, cmd)
        if ctx.shard == 0 and layer == "rel:api":
            rep.sample({"synthetic_endpoints": sorted(synth), "real_endpoints": len(real)})


def post(rep, tier, seed):
    return {"exhaustive": True, "exhaustive_scope": "all 2^15 subsets of the 15 known Matrix versions for every listed and "
                                                    "generated version history (path selection only)"}
