"""C07 — resolved state equals the spec's state resolution v2 result."""
import itertools
import json

from ..gen import rooms
from ..ref import stateres as ref
from ..report import h64
from ..worker import handle_crash

PROPERTY = "C07"
RULE = ("simulated multi-branch room histories (15-40 state events after a 7-event bootstrap; "
        "concurrent power-level changes, joins / leaves / bans / kicks / invites, join-rule flips, "
        "topic / name changes by users of every level, rooms without any power-levels event, equal "
        "/ far-past / far-future timestamps, ids differing in one character; ~12% of events "
        "deliberately unauthorised where created, some of them kept by a faulty branch), room "
        "versions 2-11; merge points: pairs and random k-subsets of DAG nodes; state sets = the "
        "states after those nodes, auth chains computed from the store. ruma's resolve() must "
        "equal the reference transcription of the spec. For the exposed sort: all DAGs with <= 5 "
        "nodes x key assignments over {0,50} x {1,2} (exhaustive in thorough, sampled in quick) and "
        "random DAGs up to 40 nodes. evaluations = merges + sorts judged; distinct_nontrivial = "
        "distinct merges with >= 1 conflicted power event or >= 1 event rejected during the "
        "iterative auth checks")
ASSUMPTIONS = ["vt/ref/stateres.py transcribes the v2 algorithm, vt/ref/auth.py the authorization "
               "rules", "one point the spec leaves open - the mainline position of an event with no "
                        "power-levels ancestor - is accepted in both conventions"]


def layers(tier):
    return ["rel", "dbg"] if tier == "thorough" else ["rel"]


def floors(tier):
    return {"histories": 150, "merges": 1500, "merges_with_conflict": 800, "merges_with_rejections": 100,
            "merges_with_power_conflict": 300, "sorts": 2000, "_distinct_nontrivial": 500}


def set_spec(state):
    return [[k[0], k[1], v] for k, v in sorted(state.items())]


def run_histories(ctx, layer, nhist, judge):
    rng = ctx.rng
    w = ctx.worker(layer)
    for hno in range(nhist):
        version = rng.choice([2, 3, 4, 5, 6, 6, 7, 8, 9, 10, 11, 11])
        h = rooms.generate(rng, version, rng.randint(15, 40), with_power_levels=rng.random() < 0.85,
                           tie_bias=rng.choice([0.2, 0.5, 0.8]))
        ctx.rep.count("histories")
        nodes = h.order[4:]
        merges = []
        pairs = list(itertools.combinations(nodes[-14:], 2))
        rng.shuffle(pairs)
        merges += [list(p) for p in pairs[:8]]
        for _ in range(4):
            k = rng.randint(3, 5)
            merges.append(rng.sample(nodes, min(k, len(nodes))))
        merges.append([nodes[-1]])                  # a single state set
        merges.append([nodes[-1], nodes[-1]])       # identical ones
        store_json = list(h.store.values())
        for m in merges:
            sets, chains = h.merge_input(m)
            cmd = {"op": "resolve_many", "version": str(version), "store": store_json,
                   "state_sets": [set_spec(s) for s in sets], "auth_chains": chains, "reps": 1, "threads": 1}
            yield h, m, sets, chains, cmd, w.call(cmd, per_op_timeout=60)


def shard(ctx):
    rep = ctx.rep
    rng = ctx.rng
    nhist = (800 if ctx.tier == "quick" else 20000) // ctx.nshards + 1
    for layer in layers(ctx.tier):
        first = True
        for h, m, sets, chains, cmd, r in run_histories(ctx, layer, nhist, None):
            rep.count("merges")
            rep.judged()
            if handle_crash(rep, r, cmd, context="resolve"):
                continue
            if "ok" not in r:
                raise RuntimeError("probe error %r" % (str(r)[:400],))
            trace = {}
            want_a = ref.resolve(h.v, sets, [set(c) for c in chains], h.store, no_ancestor_first=False, trace=trace)
            want_b = ref.resolve(h.v, sets, [set(c) for c in chains], h.store, no_ancestor_first=True)
            got = r["ok"]["results"]
            key = "v%d:%d-sets" % (h.v, len(sets))
            if trace.get("conflicted_keys"):
                rep.count("merges_with_conflict")
            if trace.get("rejected"):
                rep.count("merges_with_rejections")
            if trace.get("power_events"):
                rep.count("merges_with_power_conflict")
            if trace.get("power_events") or trace.get("rejected"):
                rep.case(h64(json.dumps(cmd["state_sets"]), json.dumps(sorted(h.store))))
            if len(got) != 1 or got[0].startswith("ERR:"):
                rep.violation("resolve_failed_or_ambiguous", key, {"results": got, "merge": m}, cmd)
                continue
            got_map = {(t, k): i for t, k, i in json.loads(got[0])}
            if got_map != want_a and got_map != want_b:
                diff = {"%s|%s" % k: {"ruma": got_map.get(k), "spec": want_a.get(k)}
                        for k in set(got_map) | set(want_a) if got_map.get(k) != want_a.get(k)}
                rep.violation("resolved_state_differs_from_spec", key,
                              {"version": h.v, "merge_nodes": m, "differences": diff, "trace": {k: v for k, v in trace.items()},
                               "events": {i: {"type": h.store[i]["type"], "state_key": h.store[i]["state_key"], "sender": h.store[i]["sender"],
                                              "content": h.store[i]["content"], "ts": h.store[i]["origin_server_ts"]}
                                          for d in diff.values() for i in d.values() if i}}, cmd)
            if len(sets) == 1 or all(s == sets[0] for s in sets):
                rep.judged()
                if got_map != sets[0]:
                    rep.violation("single_state_set_not_returned_unchanged", key, {"merge": m}, cmd)
            if first and ctx.shard == 0 and trace.get("power_events"):
                rep.sample({"version": h.v, "events": len(h.store), "merge_of": m, "trace": {k: (v if not isinstance(v, list) else v[:8]) for k, v in trace.items()}})
                first = False
        sorts(ctx, layer)


def all_small_dags(n):
    """all DAGs on n labelled nodes where edges go from a later to an earlier node"""
    pairs = [(i, j) for i in range(n) for j in range(i)]
    for mask in range(1 << len(pairs)):
        g = {i: set() for i in range(n)}
        for b, (i, j) in enumerate(pairs):
            if mask >> b & 1:
                g[i].add(j)
        yield g


def sorts(ctx, layer):
    rep = ctx.rep
    rng = ctx.rng
    w = ctx.worker(layer)
    cmds, metas = [], []
    names = ["$n%d:x" % i for i in range(40)]
    k = 0
    for n in range(1, 6):
        for g in all_small_dags(n):
            k += 1
            if not ctx.mine(k):
                continue
            if ctx.tier == "quick" and n == 5 and (k // ctx.nshards) % 8:
                continue
            combos = list(itertools.product([(0, 1), (0, 2), (50, 1), (50, 2)], repeat=n))
            if len(combos) > 16:
                combos = rng.sample(combos, 16 if ctx.tier == "quick" else 64)
            for keys in combos:
                perm = list(range(n))
                rng.shuffle(perm)          # node names independent of the topological position
                graph = {names[perm[i]]: sorted(names[perm[j]] for j in deps) for i, deps in g.items()}
                kmap = {names[perm[i]]: list(keys[i]) for i in range(n)}
                cmds.append({"op": "lexico_topo_sort", "graph": graph, "keys": kmap})
                metas.append((graph, kmap))
    for _ in range((200 if ctx.tier == "quick" else 5000) // ctx.nshards + 1):
        n = rng.randint(6, 40)
        graph, kmap = {}, {}
        for i in range(n):
            graph[names[i]] = sorted({names[j] for j in range(i) if rng.random() < 0.15})
            kmap[names[i]] = [rng.choice([0, 0, 50, 100]), rng.choice([1, 1, 2, 3])]
        cmds.append({"op": "lexico_topo_sort", "graph": graph, "keys": kmap})
        metas.append((graph, kmap))
    for cmd, (graph, kmap), r in zip(cmds, metas, w.call_many(cmds)):
        rep.count("sorts")
        rep.judged()
        if handle_crash(rep, r, cmd, context="sort"):
            continue
        want = ref.lexicographical_topological_sort({n: set(d) for n, d in graph.items()},
                                                     lambda n: (-kmap[n][0], kmap[n][1], n))
        got = r["ok"].get("ok")
        if got != want:
            problems = []
            if got is not None:
                if sorted(got) != sorted(graph):
                    problems.append("not every node exactly once")
                pos = {n: i for i, n in enumerate(got)}
                if any(pos.get(d, 10 ** 9) > pos.get(n, -1) for n, deps in graph.items() for d in deps):
                    problems.append("a dependency is emitted after its dependant")
            rep.violation("topological_sort_differs", "n=%d" % len(graph),
                          {"graph": graph, "keys": kmap, "want": want, "got": r["ok"], "problems": problems}, cmd)
