"""C17 — entry points for untrusted wire data never panic, abort or hang."""
import base64
import copy
import json

from ..gen import events as ge
from ..gen import htmlgen as hg
from ..gen import idgen, jsongen as g, mutate as mu, pdu
from ..ref import ed25519
from ..report import h64
from ..worker import crash_kind, handle_crash

PROPERTY = "C17"
RULE = ("for each entry point that consumes remote data (typed event enums incl. sync / stripped / "
        "to-device / ephemeral / account data, Raw, canonical JSON, redaction, hashes, sign / "
        "verify JSON and events with hostile key IDs, Ed25519KeyPair::from_der with ring-compat, "
        "all identifier parsers and accessors, Matrix URIs, MXC URIs, push ruleset JSON + edits + "
        "patterns + get_match on raw events, flattening, HTML parse / sanitize, endpoint request / "
        "response / error-body decoding of 36 real endpoints, multipart/mixed federation media responses, Content-Disposition, X-Matrix): "
        "valid seeds from the other monitors' generators, then structure-level (delete / duplicate "
        "/ type swap / huge, negative, fractional, exponent numbers / boundary-length strings / "
        "nesting), character-level (delete, insert, repeat, truncate, rotate) and byte-level "
        "mutation; JSON nesting up to 100,000 levels; HTML nesting up to 1,024 (stated bound); "
        "all fed in long sequences to the same supervised worker process on a 2 MiB stack, with a "
        "canary batch of fixed inputs re-run after every batch. evaluations = inputs executed; "
        "distinct_nontrivial = distinct mutated inputs")
ASSUMPTIONS = ["stated bounds: input <= 256 KiB; HTML element nesting <= 1,024; worker thread stack "
               "2 MiB; a hang is a command that does not finish alone within 120 s",
               "the supervisor attributes a process death to the command in flight (replies are "
               "flushed per command)"]


def layers(tier):
    # unst: the core probe built with every unstable (MSC) feature of ruma-events
    return ["rel", "dbg", "unst", "rel:api", "dbg:api", "asan"] if tier == "thorough" else ["rel", "dbg", "unst", "rel:api"]


def floors(tier):
    return {"inputs": 150000, "canary_batches": 40, "entry:event_de": 10000, "entry:parse_id": 10000,
            "entry:html": 3000, "entry:api": 5000, "entry:signatures": 3000, "entry:push": 3000,
            "deep_json": 20, "_distinct_nontrivial": 50000}


ENUMS = ["AnyTimelineEvent", "AnySyncTimelineEvent", "AnyStateEvent", "AnySyncStateEvent", "AnyStrippedStateEvent",
         "AnyMessageLikeEvent", "AnySyncMessageLikeEvent", "AnyToDeviceEvent", "AnyEphemeralRoomEvent",
         "AnySyncEphemeralRoomEvent", "AnyGlobalAccountDataEvent", "AnyRoomAccountDataEvent"]
CTX = {"room_id": "!r:x.org", "user_id": "@me:x.org", "user_display_name": "me", "member_count": 2,
       "power_levels": {"users": {"@a:x.org": 50}, "users_default": 0, "notifications_room": 50}}
RING_DOC = bytes([0x30, 0x53, 0x02, 0x01, 0x01, 0x30, 0x05, 0x06, 0x03, 0x2B, 0x65, 0x70, 0x04, 0x22, 0x04, 0x20]) + bytes(range(32)) + \
    bytes([0xA1, 0x23, 0x03, 0x21, 0x00]) + bytes(range(100, 132))


def seed_event(rng):
    kind = rng.choice(["state", "message", "message"])
    if kind == "state":
        key = rng.choice(sorted(ge.STATE))
        c = ge.content_of(rng, ge.STATE, key)
        ev = ge.envelope(rng, ge.real_type(key), c, rng.choice(["full", "sync", "stripped"]), state_key=rng.choice(["", "@a:b"]))
    else:
        if rng.random() < 0.5:
            c, _ = ge.message_content(rng)
            t = "m.room.message"
        else:
            key = rng.choice(sorted(ge.MESSAGE_LIKE))
            c = ge.content_of(rng, ge.MESSAGE_LIKE, key)
            t = ge.real_type(key)
        ev = ge.envelope(rng, t, c, rng.choice(["full", "sync"]))
    if rng.random() < 0.2:
        ev.setdefault("unsigned", {})["redacted_because"] = ge.redaction_event(rng, "full", "$x")
    return ev


def mutated_event_text(rng):
    ev = seed_event(rng)
    r = rng.random()
    if r < 0.55:
        for _ in range(rng.randint(1, 3)):
            ev = mu.structural(rng, ev)
        return mu.dumps(ev)
    text = json.dumps(ev, ensure_ascii=False)
    if r < 0.9:
        for _ in range(rng.randint(1, 2)):
            text = mu.textual(rng, text)
        return text[:200000]
    return text


WORD_PIECES = ["a", "b", "z9", "_", "foo", "Bar"]
SEP_PIECES = [" ", "-", ".", "\n", "\t", "é", "’", "…", "—", "\U0001f600", "\u00a0", "ß", "İ", "\u0301", "\u200d", "*", "?", "\\", "[", "("]


def word_pairs(rng, n):
    """(pattern, text) pairs where the text is built around the pattern: occurrences glued into
    longer words, overlapping repeats, multi-byte and case-folding neighbours on either side"""
    out = []
    for _ in range(n):
        pat = "".join(rng.choice(WORD_PIECES + SEP_PIECES[:9]) for _ in range(rng.randint(1, 3)))
        if rng.random() < 0.3:
            i = rng.randint(0, len(pat))
            pat = pat[:i] + rng.choice(["*", "?", "**", "*?"]) + pat[i:]
        pieces = []
        for _ in range(rng.randint(1, 5)):
            r = rng.random()
            if r < 0.45:
                pieces.append(pat.replace("*", rng.choice(["", "x", "é"])).replace("?", rng.choice(["y", "é", " "])))
            elif r < 0.6:
                pieces.append(pat[:rng.randint(0, len(pat))])
            elif r < 0.8:
                pieces.append(rng.choice(WORD_PIECES))
            else:
                pieces.append(rng.choice(SEP_PIECES))
            if rng.random() < 0.4:
                pieces.append(rng.choice(SEP_PIECES + WORD_PIECES))
        out.append([pat, "".join(pieces)])
    return out


UNSTABLE_TYPES = ["m.call.member", "org.matrix.msc3401.call.member", "m.beacon_info", "org.matrix.msc3672.beacon_info", "m.beacon",
                  "org.matrix.msc3672.beacon", "m.poll.start", "m.poll.response", "m.poll.end", "org.matrix.msc3381.poll.start",
                  "org.matrix.msc3381.poll.response", "org.matrix.msc3381.poll.end", "m.message", "m.emote", "m.image", "m.file", "m.audio",
                  "m.video", "m.voice", "m.location", "org.matrix.msc1767.message", "org.matrix.msc3245.voice.v2", "m.call.notify",
                  "org.matrix.msc4075.call.notify", "im.ponies.room_emotes", "m.image_pack", "io.element.functional_members", "m.member_hints",
                  "m.policy.rule.room", "m.marked_unread", "com.famedly.marked_unread"]
UNSTABLE_STATE_KEYS = ["", "@user:example.org", "_@user:example.org_DEVICE", "@user:example.org_DEVICE", "_@user:", "_:", "__:", "_",
                       "_@user:éxample.org_DEVICE", "_@user:\U0001f4a3", "@user:example.org_", "_@user:example.org_", "_@:_", "@:", ":",
                       "_@user:example.org_DEV_ICE_m.call", "@user:[::1]:80_D"]
UNSTABLE_CONTENTS = [{}, {"memberships": []}, {"memberships": [{"application": "m.call", "call_id": "", "device_id": "D", "expires": 3600000,
                                                                     "foci_active": [], "membership_id": "m"}]},
                     {"application": "m.call", "call_id": "", "device_id": "D", "focus_active": {"type": "livekit", "focus_selection": "oldest_membership"},
                      "foci_preferred": [], "scope": "m.room"},
                     {"description": "d", "live": True, "timeout": 60000, "org.matrix.msc3488.asset": {"type": "m.self"}, "org.matrix.msc3488.ts": 1},
                     {"m.text": [{"body": "b"}]}, {"org.matrix.msc1767.text": "t"},
                     {"m.poll": {"question": {"m.text": [{"body": "q"}]}, "answers": [{"m.id": "a", "m.text": [{"body": "x"}]}]}, "m.text": [{"body": "q"}]},
                     {"m.relates_to": {"rel_type": "m.reference", "event_id": "$e"}, "m.selections": ["a"]},
                     {"images": {"a": {"url": "mxc://a/b"}}, "pack": {"display_name": "p"}}, {"service_members": ["@a:b"]}, {"unread": True},
                     {"entity": "@a:*", "reason": "r", "recommendation": "m.ban"}]


def core_commands(ctx, n):
    """(command, entry-point family) pairs for the core probe"""
    rng = ctx.rng
    out = []
    default_ruleset = None
    for _ in range(n):
        r = rng.random()
        if r < 0.20:
            t = mutated_event_text(rng)
            out.append(({"op": "event_de", "enum": rng.choice(ENUMS), "text": t}, "event_de"))
            if rng.random() < 0.3:
                out.append(({"op": "raw_ops", "text": t, "fields": ["type", "content", "x"]}, "raw"))
            if rng.random() < 0.3:
                out.append(({"op": "canonical_json", "text": t}, "canonical_json"))
        elif r < 0.25:
            # event types and state keys that only exist behind unstable (MSC) features: known types on the
            # `unst` layer, unknown ones elsewhere
            et = rng.choice(UNSTABLE_TYPES)
            c = copy.deepcopy(rng.choice(UNSTABLE_CONTENTS))
            for _ in range(rng.randint(0, 2)):
                c = mu.structural(rng, c)
            if not isinstance(c, dict):
                c = {"x": c}
            ev = ge.envelope(rng, et, c, rng.choice(["full", "sync", "stripped"]), state_key=rng.choice(UNSTABLE_STATE_KEYS + [None, None]))
            out.append(({"op": "event_de", "enum": rng.choice(ENUMS), "text": mu.dumps(ev)}, "event_de"))
            if rng.random() < 0.3:
                out.append(({"op": "content_roundtrip", "kind": rng.choice(["state", "message_like"]), "ev_type": et, "content": mu.dumps(c), "tolerant": True}, "event_de"))
        elif r < 0.30:
            # push: flatten / get_match on arbitrary *valid* JSON events with hostile numbers
            ev = seed_event(rng)
            for _ in range(rng.randint(0, 3)):
                ev = mu.structural(rng, ev)
            text = mu.dumps(ev)
            try:
                json.loads(text)       # Raw requires syntactically valid JSON
            except Exception:
                text = json.dumps({"content": {"body": "x"}})
            out.append(({"op": "flatten", "event": text, "paths": ["content.body", "type", "content.m\\.relates_to.event_id"], "tolerant": True}, "push"))
            out.append(({"op": "push_eval", "ruleset": "{}", "event": text, "ctx": CTX, "tolerant": True}, "push"))
        elif r < 0.36:
            rs = {"override": [{"rule_id": rng.choice(["r", ".m.rule.master", ""]), "default": False, "enabled": True, "actions": ["notify"],
                                "conditions": [{"kind": "event_match", "key": rng.choice(["content.body", "type", ""]), "pattern": rng.choice(mu.STRS[:25] + ["*?*?*?*?*a", "[", "(", "\\"])}]}],
                  "content": [{"rule_id": "c", "default": False, "enabled": True, "actions": [], "pattern": rng.choice(mu.STRS[:25] + ["a" * 5000, "*" * 200, "?" * 300, "\\E"])}]}
            if rng.random() < 0.5:
                rs = mu.structural(rng, rs)
            body = rng.choice(mu.STRS[:25] + ["hello " * 2000, "a" * 10000, "\n" * 500])
            out.append(({"op": "push_eval", "ruleset": mu.dumps(rs), "event": json.dumps({"type": "m.room.message", "sender": "@a:x.org", "content": {"body": body}}),
                         "ctx": CTX, "tolerant": True}, "push"))
            ops = [{"op": "insert", "kind": rng.choice(["override", "underride", "content", "room", "sender"]),
                    "rule_id": rng.choice(mu.STRS[:20] + ["a", "b", "!r:x", "@u:x"]),
                    **({"after": rng.choice(["a", "b", ".m.rule.master", "", "zz"])} if rng.random() < 0.4 else {}),
                    **({"before": rng.choice(["a", "b", ".m.rule.master", "", "zz"])} if rng.random() < 0.4 else {})}
                   for _ in range(rng.randint(1, 6))]
            out.append(({"op": "ruleset_ops", "start": rng.choice(["empty", "default"]), "ops": ops, "only_last_dump": True, "tolerant": True}, "push"))
            # keyword / display-name matching on bodies built around the pattern
            mode = rng.choice(["body", "body", "displayname", "key"])
            pairs = word_pairs(rng, 40)
            if mode == "displayname":
                pairs = [[p_.replace("*", "").replace("?", "") or "x", t_] for p_, t_ in pairs]
            out.append(({"op": "push_match_batch", "mode": mode, "items": pairs, "tolerant": True}, "push"))
            pat, body = rng.choice(pairs)
            rs2 = {"content": [{"rule_id": "kw", "default": False, "enabled": True, "actions": ["notify"], "pattern": pat}],
                   "underride": [{"rule_id": "dn", "default": False, "enabled": True, "actions": ["notify"],
                                  "conditions": [{"kind": "contains_display_name"}]}]}
            out.append(({"op": "push_eval", "ruleset": json.dumps(rs2), "event": json.dumps({"type": "m.room.message", "sender": "@a:x.org", "content": {"body": body}}),
                         "ctx": dict(CTX, user_display_name=pat.replace("*", "").replace("?", "") or "me"), "tolerant": True}, "push"))
        elif r < 0.52:
            t = rng.choice(sorted(idgen.SIGIL) + ["server_name", "mxc_uri", "any_signing_key_id", "server_signing_key_id",
                                                  "device_key_id", "cross_signing_key_id", "one_time_key_id", "room_version_id",
                                                  "client_secret", "session_id", "base64_public_key", "room_or_alias_id"])
            seeds = idgen.valid_seeds(t if t in idgen.SIGIL or t in ("server_name", "mxc_uri", "room_version_id") or t.endswith("key_id") else "opaque")
            s = rng.choice(seeds)
            rr = rng.random()
            if rr < 0.5:
                s = mu.textual(rng, s)
            elif rr < 0.7:
                s = rng.choice(idgen.ladder(t)) if idgen.ladder(t) else s
            elif rr < 0.8:
                s = g.rand_string(rng, 20)
            out.append(({"op": "parse_id", "type": t, "s": s[:70000]}, "parse_id"))
        elif r < 0.58:
            base = rng.choice(["https://matrix.to/#/@a:b.c", "https://matrix.to/#/!r:b.c/$e:b.c?via=x.y", "matrix:u/a:b.c?action=chat",
                               "matrix:roomid/r:b.c/e/ev?via=a.b&via=c.d", "matrix:r/alias:b.c"])
            t = base
            for _ in range(rng.randint(1, 3)):
                t = mu.textual(rng, t)
            out.append(({"op": "uri_parse", "text": t[:70000]}, "parse_id"))
        elif r < 0.70:
            rr = rng.random()
            if rr < 0.6:
                doc = hg.rand_document(rng, rng.randint(1, 6))
                for _ in range(rng.randint(0, 2)):
                    doc = mu.textual(rng, doc)
            elif rr < 0.8:
                doc = hg.deep_chain(rng, rng.choice([100, 200, 512, 1000, 1024]))
            else:
                doc = rng.choice(["<table>" * 300, "<a>" * 800, "<b><i>" * 400, "<svg><math>" * 200, "<!--" * 1000, "<p " + "a=b " * 3000 + ">",
                                  "&" * 5000, "<select><option>" * 300, "<template>" * 300, "<li>" * 900, "<font><strike>" * 400])
            cfg = rng.choice([{"mode": "strict"}, {"mode": "compat", "remove_reply_fallback": True}, {}])
            out.append(({"op": "sanitize", "html": doc[:250000], "config": cfg, "no_trees": True}, "html"))
        elif r < 0.84:
            rr = rng.random()
            if rr < 0.25:
                der = rng.choice([ed25519.pkcs8_v1(bytes(range(32))), ed25519.pkcs8_v2(bytes(range(32))), RING_DOC])
                for _ in range(rng.randint(0, 3)):
                    der = mu.bytes_mut(rng, der)
                out.append(({"op": "keypair", "der_b64": base64.b64encode(der).decode(), "key_version": rng.choice(mu.STRS[:12])}, "signatures"))
            elif rr < 0.6:
                obj = g.rand_object(rng, 3, 4)
                kid = rng.choice(["ed25519:1", "ed25519:" + "k" * 300, "a" * 254 + ":x", "a" * 255 + ":é", "a" * 256 + ":é", "é" * 128 + ":é",
                                  "a" * 257 + ":\U0001f600", ":", "", "ed25519", "x:" + "é" * 200, "a" * 511 + ":é", "a" * 512 + ":é"])
                ent = rng.choice(["a.example", "", "x" * 300, "é"])
                obj["signatures"] = {ent: {kid: rng.choice(["AAAA", "", "!!", "A" * 86, 5, None])}}
                if rng.random() < 0.4:
                    obj = mu.structural(rng, obj)
                keys = {ent: {kid: base64.b64encode(bytes(32)).decode()}} if rng.random() < 0.7 else {}
                out.append(({"op": "verify_json", "text": mu.dumps(obj), "keys": keys, "tolerant": True}, "signatures"))
            else:
                v = rng.randint(1, 11)
                ev = pdu.pdu(rng, v, tpi=rng.choice([None, True, "nosigned"]))
                ev["hashes"] = {"sha256": rng.choice(["AAAA", "", "!!!", 5])}
                ev["signatures"] = {rng.choice(["a.example", "x" * 300]): {rng.choice(["ed25519:1", "a" * 256 + ":é"]): "AAAA"}}
                for _ in range(rng.randint(0, 3)):
                    ev = mu.structural(rng, ev)
                text = mu.dumps(ev)
                op = rng.choice(["verify_event", "hashes", "redact", "hash_and_sign_event"])
                cmd = {"op": op, "text": text, "version": str(v), "tolerant": True}
                if op == "verify_event":
                    cmd["keys"] = {"a.example": {"ed25519:1": base64.b64encode(bytes(32)).decode()}}
                if op == "hashes":
                    cmd["versions"] = [str(v)]
                if op == "hash_and_sign_event":
                    cmd.update(entity="a.example", der_b64=base64.b64encode(ed25519.pkcs8_v1(bytes(range(32)))).decode(), key_version="1")
                out.append((cmd, "signatures"))
        else:
            key = rng.choice(sorted(ge.STATE))
            c = ge.content_of(rng, ge.STATE, key)
            for _ in range(rng.randint(1, 3)):
                c = mu.structural(rng, c)
            if not isinstance(c, (dict, list)):
                c = {"x": c}
            out.append(({"op": "content_roundtrip", "kind": "state", "ev_type": ge.real_type(key), "content": mu.dumps(c), "tolerant": True}, "event_de"))
    return out


def api_commands(ctx, n, real):
    from .c16 import REAL, build_http
    rng = ctx.rng
    out = []
    names = sorted(REAL)
    for _ in range(n):
        r = rng.random()
        if r < 0.5:
            name = rng.choice(names)
            http, _ = build_http(rng, name, real[name])
            rr = rng.random()
            if rr < 0.4 and http["body"]:
                b = json.loads(http["body"])
                for _ in range(rng.randint(1, 3)):
                    b = mu.structural(rng, b)
                http["body"] = mu.dumps(b)
            elif rr < 0.7:
                uri = http["uri"]
                path = uri[len("https://homeserver.tld"):]
                path = mu.textual(rng, path)
                path = "".join(ch if 0x20 < ord(ch) < 0x7f else "%%%02X" % b for ch in path for b in ch.encode()) if any(not (0x20 < ord(c) < 0x7f) for c in path) else path
                if not path.startswith("/"):
                    path = "/" + path
                http["uri"] = "https://homeserver.tld" + path[:8000]
            else:
                http["body"] = mu.textual(rng, http["body"] or "{}")
            out.append(({"op": "fuzz_request", "endpoint": name, "http": http, "versions": ["v1.1", "v1.11"], "tolerant": True}, "api"))
        elif r < 0.7:
            name = rng.choice(["client.join_room_by_id", "client.send_message_event", "client.get_alias", "client.get_display_name", "client.whoami",
                               "federation.get_room_state_ids", "identity.check_public_key_validity"])
            body = mu.dumps(mu.structural(rng, {"room_id": "!r:x.org", "event_id": "$e", "servers": ["a.org"], "user_id": "@a:x.org",
                                                "displayname": "n", "valid": True, "pdu_ids": ["$a"], "auth_chain_ids": []}))
            if rng.random() < 0.3:
                body = mu.textual(rng, body)
            out.append(({"op": "fuzz_response", "endpoint": name, "http": {"status": rng.choice([200, 200, 201, 302]), "headers": [["content-type", "application/json"]], "body": body}, "tolerant": True}, "api"))
        elif r < 0.8:
            body = mu.dumps(mu.structural(rng, {"errcode": rng.choice(["M_FORBIDDEN", "M_LIMIT_EXCEEDED", "M_UNKNOWN_TOKEN", "M_RESOURCE_LIMIT_EXCEEDED", "M_INCOMPATIBLE_ROOM_VERSION", "M_BAD_STATUS", "X"]),
                                                "error": "msg", "retry_after_ms": 2000, "soft_logout": True, "admin_contact": "mailto:a@b", "room_version": "1", "status": 500, "body": "b"}))
            if rng.random() < 0.3:
                body = mu.textual(rng, body)
            out.append(({"op": "fuzz_error_body", "http": {"status": rng.choice([400, 401, 403, 404, 429, 500, 599]), "body": body}, "tolerant": True}, "api"))
        elif r < 0.86:
            # federation media: multipart/mixed response bodies (boundary from the Content-Type header)
            bnd = rng.choice(["abcdef", "a", "x" * 70, "--", "b-1_2"])
            parts = ["", "--%s\r\nContent-Type: application/json\r\n\r\n{}" % bnd,
                     "\r\n--%s\r\nContent-Type: text/plain\r\nContent-Disposition: attachment; filename=\"f.txt\"\r\n\r\nsome plain text" % bnd,
                     "\r\n--%s--" % bnd]
            if rng.random() < 0.3:
                parts[2] = "\r\n--%s\r\nLocation: https://cdn.example/x\r\n\r\n" % bnd
            body = "".join(parts)
            if rng.random() < 0.5:
                body = "\r\n" + body
            for _ in range(rng.randint(0, 4)):
                q = rng.random()
                i = rng.randint(0, len(body))
                if q < 0.3:
                    j = min(len(body), i + rng.choice([1, 2, 2, 4, 8]))
                    body = body[:i] + body[j:]
                elif q < 0.5:
                    body = body.replace("\r\n", rng.choice(["\n", "\r", "", " "]), rng.randint(1, 3))
                elif q < 0.7:
                    body = body[:i] + rng.choice(["--" + bnd, "\r\n--" + bnd, "\r\n", "\n\n", ":", "--", "\x00", "é"]) + body[i:]
                elif q < 0.85:
                    body = body[:i]
                else:
                    body = mu.textual(rng, body)
            ct = rng.choice(["multipart/mixed; boundary=%s" % bnd, "multipart/mixed; boundary=\"%s\"" % bnd, "multipart/mixed",
                             "multipart/mixed; boundary=", "text/plain", "multipart/mixed; boundary=zzz"])
            out.append(({"op": "multipart_response", "content_type": ct,
                         "body_b64": base64.b64encode(body.encode("utf-8", "surrogatepass")[:100000]).decode(), "tolerant": True}, "api"))
        elif r < 0.92:
            t = rng.choice(["attachment; filename=\"a.txt\"", "inline", "attachment; filename*=UTF-8''%e2%82%ac%20rates", "attachment; filename=a; filename*=utf-8'en'b",
                            "form-data; name=x; filename=\"a\\\"b\"", "attachment;filename*=UTF-8''%", "attachment; filename*=''", "x; =; ;;", ""])
            for _ in range(rng.randint(0, 3)):
                t = mu.textual(rng, t)
            t = "".join(ch for ch in t if ord(ch) < 0x2000)[:5000]
            out.append(({"op": "content_disposition", "text": t, "tolerant": True}, "api"))
        else:
            t = rng.choice(["X-Matrix origin=a.b,key=\"ed25519:1\",sig=\"AAAA\",destination=c.d", "X-Matrix origin=\"a.b\",key=ed25519:1,sig=AAAA",
                            "X-Matrix", "Bearer x", "X-Matrix origin=a,origin=b,key=k:1,sig=A", "x-matrix ORIGIN=a.b, KEY=\"ed25519:1\" ,SIG=\"AA\""])
            for _ in range(rng.randint(0, 3)):
                t = mu.textual(rng, t)
            out.append(({"op": "xmatrix_parse", "text": t[:5000], "tolerant": True}, "api"))
    return out


CANARY_CORE = [
    {"op": "canonical_json", "text": "{\"b\":1,\"a\":[true,null,\"x\"]}"},
    {"op": "parse_id", "type": "user_id", "s": "@carl:example.com"},
    {"op": "redact", "version": "11", "text": "{\"type\":\"m.room.member\",\"content\":{\"membership\":\"join\",\"x\":1},\"origin\":\"o\"}"},
    {"op": "sanitize", "html": "<a href=\"javascript:x\">t</a><b>k</b><font color=red>f</font>", "config": {"mode": "strict"}, "no_trees": True},
    {"op": "event_de", "enum": "AnySyncTimelineEvent", "text": "{\"type\":\"m.room.message\",\"content\":{\"msgtype\":\"m.text\",\"body\":\"hi\"},\"event_id\":\"$e\",\"sender\":\"@a:b\",\"origin_server_ts\":1}"},
    {"op": "push_match_batch", "mode": "body", "items": [["fo*", "a foo b"], ["x", "y"]]},
    {"op": "ruleset_ops", "start": "default", "ops": [{"op": "insert", "kind": "override", "rule_id": "a"}], "only_last_dump": True},
]
CANARY_API = [
    {"op": "xmatrix_parse", "text": "X-Matrix origin=\"origin.hs.example.com\",destination=\"destination.hs.example.com\",key=\"ed25519:key1\",sig=\"ABCDEF\""},
    {"op": "select_path_real", "endpoint": "synth.newtype_body", "version_sets": [["v1.1"], ["v1.3", "v1.12"], ["v1.12"]]},
    {"op": "content_disposition", "text": "attachment; filename=\"my file.txt\""},
    {"op": "multipart_response", "content_type": "multipart/mixed; boundary=abcdef", "body_b64": "DQotLWFiY2RlZg0KDQp7fQ0KLS1hYmNkZWYNCkNvbnRlbnQtVHlwZTogdGV4dC9wbGFpbg0KDQpzb21lIHBsYWluIHRleHQNCi0tYWJjZGVmLS0="},
]


def run_layer(ctx, layer, cmds, canary):
    rep = ctx.rep
    w = ctx.worker(layer)
    base = w.call_many(canary)
    for c, r in zip(canary, base):
        if crash_kind(r) or "ok" not in r:
            raise RuntimeError("canary %r does not run: %r" % (c, r))
    B = 400
    for i in range(0, len(cmds), B):
        if getattr(w, "hangs", 0) >= 6:
            # the tree hangs again and again: the verdict is settled, stop feeding this layer
            rep.count("stopped_after_repeated_hangs")
            break
        chunk = cmds[i:i + B]
        replies = w.call_many([c for c, _ in chunk], per_op_timeout=30)
        for (cmd, fam), r in zip(chunk, replies):
            rep.count("inputs")
            rep.count("entry:" + fam)
            rep.judged()
            rep.case(h64(layer.split(":")[-1], json.dumps(cmd, sort_keys=True)[:4000]))
            k = crash_kind(r)
            if k:
                handle_crash(rep, r, dict(cmd, layer=layer), context="%s:%s" % (cmd["op"], cmd.get("type") or cmd.get("enum") or cmd.get("endpoint") or ""))
            else:
                rep.count("reply:" + ("ok" if "ok" in r else "err"))
        # a rejected input must have no effect on later calls: the canary answers stay the same
        again = w.call_many(canary)
        rep.count("canary_batches")
        for c, a, b0 in zip(canary, again, base):
            a2 = {k: v for k, v in a.items() if k != "id"}
            b2 = {k: v for k, v in b0.items() if k != "id"}
            if a2 != b2:
                rep.violation("state_leaked_between_calls", "canary:%s" % c["op"],
                              {"canary": c, "before": b2, "after": a2, "layer": layer},
                              {"canary": c, "preceding": [x for x, _ in chunk][-20:]})


def shard(ctx):
    rep = ctx.rep
    rng = ctx.rng
    n_core = (150000 if ctx.tier == "quick" else 4000000) // ctx.nshards
    n_api = (40000 if ctx.tier == "quick" else 1000000) // ctx.nshards
    core = core_commands(ctx, n_core)
    # JSON nesting sweep: must be an error, never a crash
    for depth in (127, 128, 129, 1000, 10000, 100000):
        for kind in ("array", "object", "event"):
            if ctx.mine(depth):
                t = mu.deep_json(kind, depth)
                core.append(({"op": "canonical_json", "text": t}, "canonical_json"))
                core.append(({"op": "event_de", "enum": "AnySyncTimelineEvent", "text": t}, "event_de"))
                core.append(({"op": "raw_ops", "text": t, "fields": ["content"]}, "raw"))
                rep.count("deep_json", 3)
    api = None
    for layer in layers(ctx.tier):
        if layer.endswith(":api"):
            if api is None:
                lst = ctx.worker(layer).call({"op": "endpoint_list"})["ok"]
                real = {d["name"]: d["meta"] for d in lst["real"]}
                api = api_commands(ctx, n_api, real)
            run_layer(ctx, layer, api, CANARY_API)
        elif layer == "asan":
            if ctx.shard < 8:
                run_layer(ctx, layer, core[::6], CANARY_CORE)
        elif layer == "unst":
            # only the entry points whose code depends on the unstable features: typed events and contents
            run_layer(ctx, layer, [(c, f) for c, f in core if f in ("event_de", "raw")], CANARY_CORE)
        else:
            run_layer(ctx, layer, core, CANARY_CORE)
    if ctx.shard == 0:
        for cmd, fam in core[:300:60]:
            rep.sample({"family": fam, "cmd": json.dumps(cmd, ensure_ascii=False)[:300]})


def post(rep, tier, seed):
    out = {"html_depth_note": "HTML nesting is exercised up to the stated bound of 1,024 levels; see DESIGN.md for the "
                              "informational depth sweep"}
    if tier == "thorough":
        import random
        from .. import miri
        from ..runner import Ctx
        ctx = Ctx(PROPERTY, tier, seed, 0, 1)
        ctx.rng = random.Random(seed ^ 0x5eed)
        cmds = [c for c, fam in core_commands(ctx, 1400) if fam != "html" and len(json.dumps(c)) < 6000
                and c.get("op") not in ("keypair", "hash_and_sign_event", "verify_event", "verify_json")][:900]
        # regex construction is very slow under the interpreter: keep 3 pairs of each matcher batch
        cmds = [dict(c, items=c["items"][:3]) if c.get("op") == "push_match_batch" else c for c in cmds]
        out["miri"] = miri.layer(rep, cmds, seed=seed, compare_native=False, timeout=1500)
    return out
