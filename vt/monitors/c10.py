"""C10 — identifier parsing is total, lossless and accepts only the spec's grammar."""
import json

from ..gen import idgen
from ..ref import ids as ref
from ..report import h64
from ..worker import handle_crash

PROPERTY = "C10"
RULE = ("per identifier type (24 types): grammar-derived valid and invalid seeds (products of "
        "localparts x good/bad server names), single-edit mutants of every seed (insert/delete/"
        "replace/duplicate with structural, NUL, non-ASCII characters), a length ladder around "
        "255/256 and 511/512 bytes with the separator at byte 252..259 and multi-byte fill, "
        "exhaustive short strings over a structural alphabet (length <=4 quick, <=6 thorough), "
        "random Unicode; constructors with every localpart x server incl. combined length > 255. "
        "Each string goes through all acceptance forms (&T, Owned, Box, Rc, Arc, FromStr, "
        "TryFrom<String>, serde Owned/Box) and all accessors. evaluations = oracle judgements; "
        "distinct_nontrivial = distinct (type, string) that were accepted, are single-edit mutants "
        "of a seed, or sit on the length ladder")
ASSUMPTIONS = ["necessary/sufficient predicates in vt/ref/ids.py transcribe the property and the "
               "spec's recommended grammar (DESIGN appendix C); IPv6 literals are demanded only "
               "from a curated list; for types the code base documents as lax only what the "
               "property states is demanded"]

CHECKED = list(ref.TYPES.keys())
ALL_TYPES = CHECKED + ref.UNCHECKED


def layers(tier):
    return ["rel", "dbg", "asan"] if tier == "thorough" else ["rel", "dbg"]


def floors(tier):
    return {"accepted": 3000, "rejected": 3000, "ladder": 800, "mutants": 10000,
            "constructor_calls": 100, "accessor_sets_checked": 2000, "_distinct_nontrivial": 8000}


def recompose_ok(t, s, acc):
    """Do the accessors recompose to the original string? Returns None or a description."""
    if t == "user_id":
        if "@" + acc["localpart"] + ":" + acc["server_name"] != s:
            return "localpart/server_name do not recompose"
        if ":" in acc["localpart"] or "\x00" in acc["localpart"]:
            return "localpart() contains a colon or NUL"
        if not ref.server_necessary(acc["server_name"]):
            return "server_name() is not a server name"
    elif t == "room_alias_id":
        if "#" + acc["alias"] + ":" + acc["server_name"] != s:
            return "alias/server_name do not recompose"
        if ":" in acc["alias"] or not ref.server_necessary(acc["server_name"]):
            return "alias() contains a colon or server_name() is not a server name"
    elif t == "event_id":
        want = "$" + acc["localpart"] + (":" + acc["server_name"] if acc["server_name"] is not None else "")
        if want != s:
            return "localpart/server_name do not recompose"
        if (":" in s) != (acc["server_name"] is not None):
            return "server_name presence does not match colon presence"
        if ":" in acc["localpart"]:
            return "localpart() contains a colon"
    elif t in ("room_id", "room_or_alias_id"):
        sn = acc["server_name"]
        if sn is not None and s[s.find(":") + 1:] != sn:
            return "server_name is not the text after the first colon"
        if t == "room_or_alias_id":
            if acc["is_room_id"] == acc["is_room_alias_id"]:
                return "is_room_id/is_room_alias_id not exclusive"
            if acc["is_room_id"] != s.startswith("!"):
                return "variant does not match sigil"
            conv = acc["as_room_id"] if acc["is_room_id"] else acc["as_room_alias_id"]
            if conv != s:
                return "conversion to the specific type changed the text"
        if s.startswith("#") and sn is None:
            return "alias without server_name"
    elif t == "server_name":
        host, port = acc["host"], acc["port"]
        if not s.startswith(host):
            return "host is not a prefix"
        rest = s[len(host):]
        if port is None:
            if rest != "":
                return "no port but text after host"
        else:
            if not rest.startswith(":") or not ref.PORT_RE.fullmatch(rest[1:]) or int(rest[1:]) != port:
                return "host+port do not recompose (rest=%r port=%r)" % (rest, port)
        if host == "":
            return "empty host"
        if acc["is_ip_literal"] != (s.startswith("[") or bool(ref.IPV4_RE.fullmatch(host)) and
                                    all(int(x) <= 255 for x in host.split("."))):
            # only flag the unambiguous direction: bracketed => literal
            if s.startswith("[") and not acc["is_ip_literal"]:
                return "bracketed host not reported as IP literal"
    elif t.endswith("key_id"):
        if acc["algorithm"] + ":" + acc["key_name"] != s:
            return "algorithm/key_name do not recompose"
    return None


def judge(ctx, t, s, tag, reply, layer):
    rep = ctx.rep
    replay = {"op": "parse_id", "type": t, "s": s, "layer": layer}
    if handle_crash(rep, reply, replay, context=t):
        return
    if "ok" not in reply:
        raise RuntimeError("probe error %r" % (reply,))
    r = reply["ok"]
    forms = r["forms"]
    key = "%s:%s" % (t, s[:70])
    oks = {n: ("ok" in f) for n, f in forms.items()}
    rep.judged()
    if len(set(oks.values())) > 1:
        rep.violation("forms_disagree", key, {"type": t, "s": s, "forms": forms}, replay)
        return
    accepted = all(oks.values())
    rep.count("accepted" if accepted else "rejected")
    if accepted:
        rep.judged()
        bad = [n for n, f in forms.items() if f["ok"] != s]
        if bad or r.get("display") != s or json.loads(r.get("json", "null")) != s or \
                r.get("string_from", s) != s or r.get("bytes_equal") is False:
            rep.violation("not_stored_byte_for_byte", key, {"type": t, "s": s, "reply": r}, replay)
    if t in ref.TYPES:
        nec, suf = ref.TYPES[t]
        rep.judged()
        if accepted and not nec(s):
            rep.violation("accepted_outside_grammar", key,
                          {"type": t, "s": s, "acc": r.get("acc")}, replay)
        if suf(s):
            rep.count("recommended_grammar_strings")
            if not accepted:
                rep.violation("rejected_recommended_grammar", key,
                              {"type": t, "s": s, "forms": forms}, replay)
    if accepted and "acc" in r and t != "mxc_uri" and t != "room_version_id":
        rep.judged()
        rep.count("accessor_sets_checked")
        why = recompose_ok(t, s, r["acc"])
        if why:
            rep.violation("accessors_do_not_recompose", key,
                          {"type": t, "s": s, "acc": r["acc"], "why": why}, replay)
    if t == "mxc_uri":
        rep.judged()
        acc = r["acc"]
        want = ref.mxc_parts(s)
        if acc["is_valid"] != (acc["validate"] is None):
            rep.violation("mxc_validate_inconsistent", key, {"s": s, "acc": acc}, replay)
        if acc["is_valid"]:
            rep.count("accessor_sets_checked")
            p = acc["parts"]
            if want is None:
                rep.violation("accepted_outside_grammar", key, {"type": t, "s": s, "acc": acc}, replay)
            elif p is None or "mxc://" + p["server_name"] + "/" + p["media_id"] != s or \
                    acc["server_name"] != p["server_name"] or acc["media_id"] != p["media_id"]:
                rep.violation("accessors_do_not_recompose", key, {"type": t, "s": s, "acc": acc}, replay)
        elif want is not None and ref.server_sufficient(want[0]) and len(s) <= 255:
            rep.violation("rejected_recommended_grammar", key, {"type": t, "s": s, "acc": acc}, replay)
    if accepted or tag in ("mutant", "ladder"):
        rep.case(h64(t, s))


def workload(ctx):
    rng = ctx.rng
    items = []   # (type, string, tag)
    k = 0
    short_len = 4 if ctx.tier == "quick" else 6
    for t in ALL_TYPES:
        seeds = idgen.valid_seeds(t if t in idgen.SIGIL or t in ("server_name", "mxc_uri", "room_version_id")
                                  or t.endswith("key_id") else "opaque")
        for s in seeds:
            k += 1
            if ctx.mine(k):
                items.append((t, s, "seed"))
                for m in idgen.mutants(s, rng, limit=12 if ctx.tier == "quick" else 60):
                    items.append((t, m, "mutant"))
                    ctx.rep.count("mutants")
        for s in idgen.ladder(t):
            k += 1
            if ctx.mine(k):
                items.append((t, s, "ladder"))
                ctx.rep.count("ladder")
        heavy = t in ("user_id", "server_name", "event_id", "room_id", "room_alias_id",
                      "any_signing_key_id", "server_signing_key_id")
        for s in idgen.short_exhaustive(t, short_len if heavy else min(short_len, 4)):
            k += 1
            if ctx.mine(k):
                items.append((t, s, "short"))
        nrand = (150 if ctx.tier == "quick" else 20000) // ctx.nshards + 1
        for s in idgen.random_unicode(rng, nrand):
            items.append((t, s, "random"))
    return items


def constructors(ctx, layer):
    rep = ctx.rep
    w = ctx.worker(layer)
    rng = ctx.rng
    cmds = []
    lps = idgen.LOCALPARTS + ["l" * n for n in (200, 240, 248, 249, 250, 251, 252, 260, 300)] + \
        ["é" * n for n in (120, 124, 125, 126)]
    servers = [s for s in idgen.SERVERS_GOOD if ref.server_sufficient(s)] + ["s" * 20 + ".org"]
    for i, lp in enumerate(lps):
        for srv in servers:
            if ctx.mine(i):
                cmds.append({"op": "construct_id", "kind": "user_with_server", "localpart": lp,
                             "server": srv})
                cmds.append({"op": "construct_id", "kind": "user_with_server",
                             "localpart": "@%s:%s" % (lp, srv), "server": "other.org"})
    for srv in servers:
        for kind in ("user_new", "room_new", "event_new"):
            cmds.append({"op": "construct_id", "kind": kind, "server": srv})
    for alg in ["ed25519", "curve25519", "signed_curve25519", "custom.alg"]:
        for name in ["1", "abc_1", "JLAFKJWSCS", "k" * 300]:
            cmds.append({"op": "construct_id", "kind": "server_signing_key_id", "algorithm": alg, "name": name})
            cmds.append({"op": "construct_id", "kind": "device_key_id", "algorithm": alg, "name": name})
            cmds.append({"op": "construct_id", "kind": "one_time_key_id", "algorithm": alg, "name": name})
    for kind in ("transaction_new", "device_new", "client_secret_new"):
        cmds.append({"op": "construct_id", "kind": kind})
    replies = w.call_many(cmds)
    follow = []
    TYPE_OF = {"user_with_server": "user_id", "user_new": "user_id", "room_new": "room_id",
               "event_new": "event_id", "server_signing_key_id": "server_signing_key_id",
               "device_key_id": "device_key_id", "one_time_key_id": "one_time_key_id",
               "transaction_new": "transaction_id", "device_new": "device_id",
               "client_secret_new": "client_secret"}
    for cmd, r in zip(cmds, replies):
        rep.count("constructor_calls")
        if handle_crash(rep, r, cmd, context="constructor"):
            continue
        if "ok" not in r:
            raise RuntimeError("probe error %r for %r" % (r, cmd))
        res = r["ok"]
        outs = []
        if cmd["kind"] == "user_with_server":
            kinds = {k: ("ok" in v) for k, v in res.items()}
            rep.judged()
            if len(set(kinds.values())) > 1 or len({v.get("ok") for v in res.values()}) > 1:
                rep.violation("constructor_forms_disagree", cmd["localpart"][:60],
                              {"cmd": cmd, "reply": res}, cmd)
            if "ok" in res["box"]:
                outs.append(res["box"]["ok"])
        elif res.get("ok") is not None:
            outs.append(res["ok"])
        for o in outs:
            follow.append((cmd, TYPE_OF[cmd["kind"]], o))
    replies = w.call_many([{"op": "parse_id", "type": t, "s": o} for _, t, o in follow])
    for (cmd, t, o), r in zip(follow, replies):
        rep.judged()
        if handle_crash(rep, r, {"op": "parse_id", "type": t, "s": o}, context="constructed"):
            continue
        forms = r["ok"]["forms"]
        if not all("ok" in f for f in forms.values()):
            rep.violation("constructor_output_rejected_by_parser",
                          "%s:%s" % (cmd["kind"], str(cmd.get("localpart", cmd.get("name", "")))[:50]),
                          {"cmd": cmd, "constructed": o, "constructed_len": len(o.encode()),
                           "forms": forms}, cmd)
        else:
            rep.count("constructor_outputs_accepted")


def shard(ctx):
    items = workload(ctx)
    B = 3000
    for layer in layers(ctx.tier):
        if layer == "asan" and ctx.shard >= 8:
            continue
        w = ctx.worker(layer)
        for i in range(0, len(items), B):
            chunk = items[i:i + B]
            if layer == "asan":
                chunk = chunk[::4]
            replies = w.call_many([{"op": "parse_id", "type": t, "s": s} for t, s, _ in chunk])
            for (t, s, tag), r in zip(chunk, replies):
                judge(ctx, t, s, tag, r, layer)
            if i == 0 and ctx.shard == 0 and layer == "rel":
                for (t, s, tag), r in list(zip(chunk, replies))[::max(1, len(chunk) // 8)]:
                    ctx.rep.sample({"type": t, "s": s[:120], "tag": tag,
                                    "accepted": "ok" in r.get("ok", {}).get("forms", {}).get("borrowed", {}),
                                    "acc": r.get("ok", {}).get("acc")})
        if layer in ("rel", "dbg"):
            constructors(ctx, layer)


def post(rep, tier, seed):
    """thorough: a recorded sample covering every type and acceptance form is interpreted by Miri
    (identifier transmutes, from_borrowed/from_box/from_rc/from_arc, unreachable_unchecked)."""
    if tier != "thorough":
        return {"miri": "thorough tier only"}
    import random
    from .. import miri
    rng = random.Random(seed)
    cmds = []
    for t in ALL_TYPES:
        seeds = idgen.valid_seeds(t if t in idgen.SIGIL or t in ("server_name", "mxc_uri", "room_version_id")
                                  or t.endswith("key_id") else "opaque") + idgen.ladder(t)
        for s in rng.sample(seeds, min(70, len(seeds))):
            cmds.append({"op": "parse_id", "type": t, "s": s})
            if rng.random() < 0.3:
                cmds.append({"op": "parse_id", "type": t, "s": rng.choice(idgen.mutants(s, rng, limit=4) or [s])})
    cmds.append({"op": "construct_id", "kind": "user_with_server", "localpart": "alice", "server": "example.org"})
    return {"miri": miri.layer(rep, cmds, seed=seed)}
