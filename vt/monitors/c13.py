"""C13 — push ruleset edits follow placement semantics, never panic, and fail atomically."""
import itertools
import json

from ..ref import ruleset_model as model
from ..report import h64
from ..worker import handle_crash, crash_kind

PROPERTY = "C13"
RULE = ("bounded exhaustive exploration of the real implementation's reachable states: for each "
        "start state {empty, server-default} x kind {override, content, room, sender, underride}, "
        "breadth-first over all operations (insert of ids a,b,c with every after/before anchor "
        "combination from {none, a, b, c, unknown id, server-default id, the rule itself}, two "
        "action payloads; remove; set_enabled true/false; set_actions; also on a server-default "
        "id) from every distinct observed state up to depth 3 (quick) / 5 (thorough), states "
        "de-duplicated by the observed dump; each transition is executed by the real code "
        "(path replayed from the start state) and judged by the reference model; plus random "
        "mixed-kind sequences of length <= 40 incl. invalid ids. evaluations = transitions "
        "judged; distinct_nontrivial = distinct (state, operation) pairs whose operation is a "
        "positioned insert, a re-insert of an existing rule, or an erroring operation")
ASSUMPTIONS = ["placement semantics as documented on Ruleset::insert and in the spec's PUT "
               "pushrules before/after parameters (vt/ref/ruleset_model.py)",
               "inserting a rule relative to itself is unspecified: only no-panic and atomic "
               "failure are demanded there; an unpositioned new override rule in a set whose first "
               "rule is not the master rule may land at index 0 or 1"]

IDS = {"override": ["a", "b", "c"], "underride": ["a", "b", "c"], "content": ["a", "b", "c"],
       "room": ["!a:x.org", "!b:x.org", "!c:x.org"], "sender": ["@a:x.org", "@b:x.org", "@c:x.org"]}
DEFAULT_ID = {"override": ".m.rule.master", "underride": ".m.rule.call",
              "content": ".m.rule.contains_user_name", "room": ".m.rule.none", "sender": ".m.rule.none"}
A1 = ["notify"]
A2 = ["notify", {"set_tweak": "highlight"}]


def layers(tier):
    return ["rel", "dbg"] if tier == "thorough" else ["rel"]


def shards(tier, n):
    return 10


def floors(tier):
    return {"transitions": 8000, "states": 150, "expected_err": 1500, "positioned_inserts": 3000,
            "reinserts": 1000, "random_steps": 2000, "_distinct_nontrivial": 4000}


def all_ops(kind):
    ids_ = IDS[kind]
    ops = []
    for rid in ids_:
        anchors = [None] + ids_ + ["unknown" if kind not in ("room", "sender") else ids_[0][0] + "zz:x.org",
                                   DEFAULT_ID[kind]]
        for after, before in itertools.product(anchors, anchors):
            op = {"op": "insert", "kind": kind, "rule_id": rid, "actions": A1}
            if after is not None:
                op["after"] = after
            if before is not None:
                op["before"] = before
            ops.append(op)
        ops.append({"op": "insert", "kind": kind, "rule_id": rid, "actions": A2})
        if kind == "content":
            # replacing a rule by one with another pattern (same id): still one rule, same place
            ops.append({"op": "insert", "kind": kind, "rule_id": rid, "actions": A1, "pattern": "other*"})
            ops.append({"op": "insert", "kind": kind, "rule_id": rid, "actions": A1, "pattern": "third", "after": ids_[0]})
    for rid in ids_ + [DEFAULT_ID[kind]]:
        ops.append({"op": "remove", "kind": kind, "rule_id": rid})
        ops.append({"op": "set_enabled", "kind": kind, "rule_id": rid, "enabled": True})
        ops.append({"op": "set_enabled", "kind": kind, "rule_id": rid, "enabled": False})
        ops.append({"op": "set_actions", "kind": kind, "rule_id": rid, "actions": A2})
    if kind in ("override", "underride", "content"):
        for bad in [".x", "a/b", "a\\b", ""]:
            ops.append({"op": "insert", "kind": kind, "rule_id": bad, "actions": A1})
    return ops


def key_of(dump):
    return json.dumps(dump, sort_keys=True)


def judge_transition(rep, kind, prev_dump, op, step, replay, layer):
    """prev_dump/step['dump']: whole-ruleset dumps."""
    rep.count("transitions")
    rep.judged()
    res = step["result"]
    after = step["dump"]
    status = "ok" if "ok" in res else "err"
    sig = "%s:%s:%s" % (kind, op["op"], json.dumps({k: v for k, v in op.items()
                                                     if k in ("rule_id", "after", "before")}, sort_keys=True))
    # other kinds untouched, ids unique, iterator consistent
    for k in model.KINDS:
        if k != kind and after[k] != prev_dump[k]:
            rep.violation("other_kind_changed", sig, {"op": op, "kind": k}, replay)
    idl = model.ids(after[kind])
    if len(set(idl)) != len(idl):
        rep.violation("duplicate_rule_ids", sig, {"op": op, "ids": idl}, replay)
    want_iter = [r["id"] for k in model.KINDS for r in after[k]]
    if after["iter"] != want_iter:
        rep.violation("iter_inconsistent", sig, {"iter": after["iter"], "lists": want_iter}, replay)
    if status == "err":
        rep.count("observed_err")
        if after != prev_dump:
            rep.violation("error_not_atomic", sig,
                          {"op": op, "error": res["err"], "before": prev_dump[kind],
                           "after": after[kind]}, replay)
    expected = model.apply(kind, prev_dump[kind], op)
    if expected is None:
        rep.count("unspecified_anchor_is_self")
        return
    if expected[0][0] == "err":
        rep.count("expected_err")
    if op["op"] == "insert" and ("after" in op or "before" in op):
        rep.count("positioned_inserts")
    if op["op"] == "insert" and op["rule_id"] in model.ids(prev_dump[kind]):
        rep.count("reinserts")
    ok = any(status == st and after[kind] == lst for st, lst in expected)
    if not ok:
        rep.violation("placement_differs_from_model" if status == expected[0][0] else "result_differs_from_model",
                      sig, {"op": op, "layer": layer, "before": model.ids(prev_dump[kind]),
                            "got_status": status, "got_error": res.get("err"),
                            "got": after[kind], "want": [(st, lst) for st, lst in expected]}, replay)
    # get() agrees with the dump
    if status == "ok" and op["op"] != "remove":
        g = step.get("get")
        inlist = [r for r in after[kind] if r["id"] == op["rule_id"]]
        if inlist and g != inlist[0]:
            rep.violation("get_disagrees_with_iteration", sig, {"get": g, "listed": inlist[0]}, replay)


def explore(ctx, start, kind, depth, layer, prefix=()):
    """breadth-first over all operations; prefix: operations applied first (a populated ruleset)"""
    rep = ctx.rep
    w = ctx.worker(layer)
    ops = all_ops(kind)
    prefix = list(prefix)
    r0 = w.call({"op": "ruleset_ops", "start": start, "ops": prefix})
    init = r0["ok"]["steps"][-1]["dump"] if prefix else r0["ok"]["initial"]
    seen = {key_of(init): (prefix, init)}
    frontier = [(prefix, init)]
    for d in range(depth):
        nxt = []
        cmds, meta = [], []
        for path, dump in frontier:
            for op in ops:
                cmds.append({"op": "ruleset_ops", "start": start, "ops": path + [op],
                             "only_last_dump": True})
                meta.append((path, dump, op))
        replies = w.call_many(cmds, batch=512)
        for (path, dump, op), cmd, r in zip(meta, cmds, replies):
            replay = {"op": "ruleset_ops", "start": start, "ops": path + [op]}
            if crash_kind(r):
                handle_crash(rep, r, replay, context="%s:%s:%s" % (
                    kind, op["op"], json.dumps({k: v for k, v in op.items()
                                                if k in ("rule_id", "after", "before")}, sort_keys=True)))
                rep.count("transitions")
                continue
            step = r["ok"]["steps"][-1]
            judge_transition(rep, kind, dump, op, step, replay, layer)
            nontrivial = (op["op"] == "insert" and ("after" in op or "before" in op
                                                    or op["rule_id"] in model.ids(dump[kind]))) \
                or "err" in step["result"]
            rep.case(h64(start, kind, key_of(dump[kind]), json.dumps(op, sort_keys=True)), nontrivial)
            k = key_of(step["dump"])
            if k not in seen:
                seen[k] = (path + [op], step["dump"])
                nxt.append((path + [op], step["dump"]))
                rep.count("states")
        frontier = nxt
        rep.count("frontier_depth_%d" % (d + 1), len(nxt))
        if not frontier:
            rep.count("closed_under_all_ops:%s:%s" % (start, kind))
            break
    return seen


def random_sequences(ctx, layer, n_seq):
    rng = ctx.rng
    rep = ctx.rep
    w = ctx.worker(layer)
    for _ in range(n_seq):
        start = rng.choice(["empty", "default"])
        ops = []
        for _ in range(rng.randint(5, 40)):
            kind = rng.choice(model.KINDS)
            pool = all_ops(kind)
            ops.append(rng.choice(pool))
        cmd = {"op": "ruleset_ops", "start": start, "ops": ops}
        r = w.call(cmd)
        if crash_kind(r):
            handle_crash(rep, r, cmd, context="random-sequence")
            continue
        prev = r["ok"]["initial"]
        for i, (op, step) in enumerate(zip(ops, r["ok"]["steps"])):
            rep.count("random_steps")
            judge_transition(rep, op["kind"], prev, op, step,
                             {"op": "ruleset_ops", "start": start, "ops": ops[:i + 1]}, layer)
            prev = step["dump"]


def shard(ctx):
    pairs = [(s, k) for s in ("empty", "default") for k in model.KINDS]
    depth = 3 if ctx.tier == "quick" else 5
    for layer in layers(ctx.tier):
        for i, (start, kind) in enumerate(pairs):
            if i % ctx.nshards != ctx.shard:
                continue
            seen = explore(ctx, start, kind, depth, layer)
            # from a ruleset that already holds three user rules of the kind (removals and moves in the
            # middle of a list need more rules than three steps from an empty list can create)
            filled = [{"op": "insert", "kind": kind, "rule_id": rid, "actions": A1} for rid in IDS[kind]]
            seen.update(explore(ctx, start, kind, depth - 1, layer, prefix=filled))
            if layer == "rel":
                some = list(seen.values())[-1]
                ctx.rep.sample({"start": start, "kind": kind, "depth": depth,
                                "distinct_states": len(seen),
                                "example_path": some[0], "example_state": model.ids(some[1][kind])})
        random_sequences(ctx, layer, 30 if ctx.tier == "quick" else 1500)


def post(rep, tier, seed):
    return {"exhaustive": True,
            "exhaustive_scope": "all operations of the stated alphabet from every distinct reachable "
                                "state up to depth %d, per (start state, kind), and up to depth %d from the ruleset "
                                "holding three user rules of the kind" % ((3, 2) if tier == "quick" else (5, 4))}
