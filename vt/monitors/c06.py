"""C06 — state resolution is deterministic and independent of input and hash-map order."""
import copy
import itertools
import json

from ..gen import rooms
from ..ref import stateres as ref
from ..report import h64
from ..worker import handle_crash

PROPERTY = "C06"
RULE = ("room histories from the C07 simulator biased towards ties (equal timestamps, equal power "
        "levels, ids differing in the last character), rooms without a power-levels event, several "
        "conflicting power events, plus malformed stores (auth events missing from the store, "
        "events whose auth_events lack the m.room.create event). Each merge input (pairs and "
        "k-subsets of DAG nodes) is resolved r times on each of t threads sharing the store "
        "(quick r=12, t=4; thorough r=48, t=8); every repetition rebuilds all hash maps / sets "
        "(fresh per-map RandomState keys), permutes the order of the state-set and auth-chain "
        "arguments and logs the sequence of fetch_event arguments. Oracle: exactly one distinct "
        "result per input; a single state set, or identical ones, is returned unchanged. "
        "evaluations = resolutions observed; distinct_nontrivial = inputs with >= 2 conflicted "
        "keys for which >= 2 distinct fetch_event traces (= hash-iteration orders / schedules) "
        "were observed. Each input is also resolved once on the worker's long-lived thread, which has served "
        "every earlier command (other stores, other room versions, the damaged copy of the same store)")
ASSUMPTIONS = ["the sequence of fetch_event arguments is the externally visible image of the "
               "internal hash iteration order; 'distinct traces seen' measures the orders explored",
               "schedules are sampled (natural RandomState keys, OS thread interleavings), not "
               "enumerated"]


def layers(tier):
    return ["rel"]


def floors(tier):
    return {"inputs": 800, "resolutions": 30000, "inputs_with_several_traces": 400, "malformed_store_inputs": 100,
            "single_set_inputs": 50, "complete_store_after_damaged_store": 80, "_distinct_nontrivial": 300}


def set_spec(state):
    return [[k[0], k[1], v] for k, v in sorted(state.items())]


def shard(ctx):
    rep = ctx.rep
    rng = ctx.rng
    w = ctx.worker("rel")
    nhist = (400 if ctx.tier == "quick" else 4000) // ctx.nshards + 1
    reps, threads = (12, 4) if ctx.tier == "quick" else (48, 8)
    sampled = False
    for hno in range(nhist):
        version = rng.choice([2, 4, 6, 7, 9, 10, 11])
        h = rooms.generate(rng, version, rng.randint(15, 35), with_power_levels=rng.random() < 0.75, tie_bias=0.8)
        nodes = h.order[4:]
        merges = [list(p) for p in rng.sample(list(itertools.combinations(nodes[-12:], 2)), 6)]
        merges += [rng.sample(nodes, min(rng.randint(3, 5), len(nodes))) for _ in range(3)]
        merges += [[nodes[-1]], [nodes[-2], nodes[-2], nodes[-2]]]
        for mi, m in enumerate(merges):
            sets, chains = h.merge_input(m)
            store = h.store
            malformed = None
            if mi % 4 == 3:
                # malformed stores: same inputs, damaged store
                store = copy.deepcopy(h.store)
                kind = rng.choice(["missing-auth-event", "no-create-in-auth", "both"])
                malformed = kind
                if kind in ("missing-auth-event", "both"):
                    in_chains = sorted({i for c in chains for i in c} - {v for s in sets for v in s.values()})
                    if in_chains:
                        store.pop(rng.choice(in_chains), None)
                victims = [i for i in store if store[i]["type"] != "m.room.create"]
                if kind in ("no-create-in-auth", "both"):
                    for i in rng.sample(victims, min(4, len(victims))):
                        store[i]["auth_events"] = [a for a in store[i]["auth_events"] if not (a in store and store[a]["type"] == "m.room.create")]
                rep.count("malformed_store_inputs")
            cmd = {"op": "resolve_many", "version": str(version), "store": list(store.values()),
                   "state_sets": [set_spec(s) for s in sets], "auth_chains": chains, "reps": reps, "threads": threads,
                   "permute": True, "seed": rng.randint(0, 2 ** 31), "inline": True}
            r = w.call(cmd, per_op_timeout=120)
            if malformed is not None:
                # the same input with the complete store right after the damaged one, on the same
                # long-lived thread (and on fresh ones): earlier calls must leave nothing behind
                again = dict(cmd, store=list(h.store.values()), seed=rng.randint(0, 2 ** 31))
                r2 = w.call(again, per_op_timeout=120)
                rep.count("inputs")
                if not handle_crash(rep, r2, again, context="resolve") and "ok" in r2:
                    rep.count("resolutions", r2["ok"]["runs"])
                    rep.judged(r2["ok"]["runs"])
                    rep.count("complete_store_after_damaged_store")
                    r2["ok"]["results"] = sorted({("ERR:<any>" if x.startswith("ERR:") else x) for x in r2["ok"]["results"]})
                    if len(r2["ok"]["results"]) != 1:
                        rep.violation("resolution_not_deterministic", "v%d:after-damaged-store" % version,
                                      {"distinct_results": len(r2["ok"]["results"]), "runs": r2["ok"]["runs"],
                                       "note": "one run on the thread that resolved the damaged store before, the others on fresh threads",
                                       "merge_nodes": m}, {"ops": [cmd, again]})
            rep.count("inputs")
            if handle_crash(rep, r, cmd, context="resolve"):
                continue
            if "ok" not in r:
                raise RuntimeError("probe error %r" % (str(r)[:400],))
            o = r["ok"]
            # an error is one outcome whatever its wording (which of several missing events is named
            # first may depend on iteration order without the resolved state being affected)
            o["results"] = sorted({("ERR:<any>" if x.startswith("ERR:") else x) for x in o["results"]})
            rep.count("resolutions", o["runs"])
            rep.judged(o["runs"])
            rep.count("fetch_calls", o["fetch_calls"])
            unconflicted, conflicted = ref.separate(sets)
            if o["distinct_fetch_traces"] >= 2:
                rep.count("inputs_with_several_traces")
            rep.observe("trace_counts", o["distinct_fetch_traces"])
            rep.case(h64(json.dumps(cmd["state_sets"]), json.dumps(sorted(store)), str(malformed)),
                     len(conflicted) >= 2 and o["distinct_fetch_traces"] >= 2)
            key = "v%d:%s" % (version, malformed or "well-formed")
            if len(o["results"]) != 1:
                maps = []
                for res in o["results"][:3]:
                    maps.append(res if res.startswith("ERR:") else {"%s|%s" % (t, k): i for t, k, i in json.loads(res)})
                diff = None
                if all(isinstance(x, dict) for x in maps[:2]) and len(maps) >= 2:
                    diff = {k: [maps[0].get(k), maps[1].get(k)] for k in set(maps[0]) | set(maps[1]) if maps[0].get(k) != maps[1].get(k)}
                rep.violation("resolution_not_deterministic", key,
                              {"distinct_results": len(o["results"]), "runs": o["runs"], "difference": diff,
                               "first_results": [x if isinstance(x, str) else "<map>" for x in maps], "malformed_store": malformed,
                               "merge_nodes": m}, cmd)
                continue
            if len(sets) == 1 or all(s == sets[0] for s in sets):
                rep.count("single_set_inputs")
                rep.judged()
                res = o["results"][0]
                if res.startswith("ERR:") or {(t, k): i for t, k, i in json.loads(res)} != sets[0]:
                    rep.violation("single_state_set_not_returned_unchanged", key, {"result": res[:500]}, cmd)
            if not sampled and ctx.shard == 0 and len(conflicted) >= 2:
                rep.sample({"version": version, "events": len(store), "merge_of": m, "conflicted_keys": len(conflicted),
                            "runs": o["runs"], "distinct_fetch_traces": o["distinct_fetch_traces"], "distinct_results": len(o["results"])})
                sampled = True


def post(rep, tier, seed):
    """thorough: small rooms resolved on 2 threads under Miri with several scheduler seeds (data
    race detector + per-seed hash keys)."""
    if tier != "thorough":
        return {"miri": "thorough tier only"}
    import random
    from .. import miri
    rng = random.Random(seed)
    cmds = []
    for i in range(32):
        h = rooms.generate(rng, rng.choice([6, 9, 11]), rng.randint(4, 9), tie_bias=0.8)
        nodes = h.order[4:]
        m = rng.sample(nodes, 2)
        sets, chains = h.merge_input(m)
        cmds.append({"op": "resolve_many", "version": str(h.v), "store": list(h.store.values()),
                     "state_sets": [set_spec(s) for s in sets], "auth_chains": chains, "reps": 2, "threads": 2,
                     "permute": True, "seed": i})
    info = miri.layer(rep, cmds, seed=seed, compare_native=False)
    return {"miri": info}
