"""C08 — event authorization decides exactly as the spec's rules in every room version."""
import json

from ..gen import authgen
from ..ref import auth as ref
from ..report import h64
from ..worker import handle_crash

PROPERTY = "C08"
RULE = ("product abstraction instantiated with concrete users/ids: room versions 1-11 x "
        "{membership transitions: event membership (6) x self/other x sender membership (6+absent) "
        "x target membership x join rule (7+absent) x power levels absent/present x sender level "
        "below/at/above the relevant threshold x target level below/at/above the sender x (for kicks "
        "/ unbans) the ban threshold below/at/above the kick threshold; restricted "
        "and knock_restricted joins x authoriser membership x authoriser level; creator's first "
        "join x prev_events shapes; third-party invites (14 cases with real Ed25519 signatures); "
        "ordinary message / state / @-state-key / third_party_invite / aliases / redaction events "
        "x sender membership x required-level source x level encodings (int, string, padded "
        "string before v10); m.room.power_levels changes: every scalar field and every "
        "events / notifications / users entry added, raised, lowered, removed around the sender's "
        "level, malformed new content; create events; federation flag}. quick: a stratified "
        "sample; thorough: the whole product, plus a second instantiation with randomised "
        "identifiers. Plus a random family (quick 40,000, thorough 600,000 triples): every power-level "
        "field independently absent or drawn from {0,10,25,40,41,50,75,100}, random users / events "
        "maps, memberships, join rules and candidate events (members, messages, state, power-level "
        "edits, redactions, third-party invites), so that thresholds differ from each other. evaluations = triples judged; distinct_nontrivial = distinct triples decided "
        "by a rule other than the final 'allow'")
ASSUMPTIONS = ["vt/ref/auth.py transcribes the spec's authorization rules (DESIGN appendix A lists "
               "the readings taken where the text is ambiguous)",
               "checks the spec assigns to other stages (signatures, duplicate / foreign / rejected "
               "auth_events entries) are outside auth_check's contract and outside the model"]


def layers(tier):
    return ["rel", "dbg"] if tier == "thorough" else ["rel"]


def floors(tier):
    return {"triples": 50000, "model_rules_seen": 60, "allowed": 4000, "rejected": 20000,
            "_distinct_nontrivial": 30000}


def fmt_item(t):
    return {"version": str(t["version"]), "event": t["event"], "state": t["state"]}


def state_map(t):
    return {(e["type"], e["state_key"]): e for e in t["state"]}


def run(ctx, judge_extra=None):
    rep = ctx.rep
    rng = ctx.rng
    stride = 1
    for layer in layers(ctx.tier):
        w = ctx.worker(layer)
        fams = authgen.all_families() + [("random", authgen.random_family(ctx.seed, 40000 if ctx.tier == "quick" else 600000))]
        for fname, fam in fams:
            batch, metas = [], []

            def flush():
                if not batch:
                    return
                cmd = {"op": "auth_check_batch", "items": [fmt_item(t) for t in batch]}
                r = w.call(cmd, per_op_timeout=60)
                if handle_crash(rep, r, cmd, context=fname):
                    # find the culprit individually
                    for t in batch:
                        r1 = w.call({"op": "auth_check", **fmt_item(t)})
                        handle_crash(rep, r1, {"op": "auth_check", **fmt_item(t)}, context=t["tag"])
                    batch.clear()
                    return
                if "ok" not in r:
                    raise RuntimeError("probe error %r" % (str(r)[:500],))
                for t, res in zip(batch, r["ok"]):
                    judge(ctx, t, res, layer)
                    if judge_extra:
                        judge_extra(ctx, t, res, layer)
                batch.clear()
            k = 0
            for t in fam():
                k += 1
                if not ctx.mine(k):
                    continue
                # quick: stratified sample - every `stride`-th cell of the big families, all of the small
                if stride > 1 and fname in ("membership", "ordinary") and (k // ctx.nshards) % stride:
                    continue
                batch.append(t)
                if ctx.tier == "thorough" or rng.random() < 0.15:
                    batch.append(authgen.randomize(rng, t))
                if len(batch) >= 400:
                    flush()
            flush()


def judge(ctx, t, res, layer):
    rep = ctx.rep
    rep.count("triples")
    rep.judged()
    want_ok, rule = ref.auth_check(t["version"], t["event"], state_map(t))
    got_ok = "ok" in res["result"]
    rep.observe("model_rules", rule.split(":")[0])
    if not got_ok:
        rep.observe("ruma_errors", res["result"]["err"][:60])
    rep.count("allowed" if want_ok else "rejected")
    if rule != "allowed":
        rep.case(h64(json.dumps(fmt_item(t), sort_keys=True)))
    if got_ok != want_ok:
        ev = t["event"]
        key = "v%d:%s:%s" % (t["version"], t["tag"], rule)
        rep.violation("authorization_differs_from_spec", key,
                      {"version": t["version"], "tag": t["tag"], "model": {"allowed": want_ok, "rule": rule},
                       "ruma": res["result"], "event": ev,
                       "state": {"%s|%s" % (e["type"], e["state_key"]): e["content"] for e in t["state"]}, "layer": layer},
                      {"op": "auth_check", **fmt_item(t)})


def shard(ctx):
    run(ctx)
    if ctx.shard == 0:
        n = 0
        for fname, fam in authgen.all_families():
            for t in fam():
                ctx.rep.sample({"family": fname, "version": t["version"], "tag": t["tag"], "event": t["event"],
                                "state_keys": ["%s|%s" % (e["type"], e["state_key"]) for e in t["state"]]})
                n += 1
                break


def post(rep, tier, seed):
    rep.counters["model_rules_seen"] = len(rep.sets["model_rules"])
    rep.counters["ruma_error_messages_seen"] = len(rep.sets["ruma_errors"])
    return None
