"""C12 — push evaluation picks the first matching enabled rule under spec semantics."""
import itertools
import json

from ..gen import jsongen as g
from ..ref import glob as refglob
from ..ref import pushrules as ref
from ..report import h64
from ..worker import handle_crash

PROPERTY = "C12"
RULE = ("(a) matcher core, exhaustive grids: every glob pattern up to length 3 (quick) / 4 (thorough) "
        "over {a b _ space - * ? newline} x every text up to length 4 (thorough also 3 x 5) over {a b A _ space - "
        "newline e-acute}; narrow alphabets with longer strings - patterns up to 4 / 5 over {a b space} x "
        "texts up to 7 / 8 over {a b space} (overlapping and repeated partial occurrences), thorough "
        "also {a space * ?}^<=4 x {a b space}^<=7 and {a e-acute -}^<=4 x ^<=7; each "
        "for content.body (word semantics), another key (whole-value glob) and "
        "display names (wildcard-free patterns), plus random longer pattern/text pairs built from "
        "repeated partial matches, adjacent wildcards and multi-byte neighbours; (b) flattening: "
        "random nested events with keys containing '.' and '\\\\', empty objects, arrays, ints at "
        "the js_int boundary, floats, looked up by escaped and unescaped paths; (c) random "
        "rulesets (all kinds, enabled flags, orders, every condition kind, legacy mention rules "
        "with/without m.mentions, sender == user) x contexts x events through get_match/"
        "get_actions. evaluations = verdicts judged; distinct_nontrivial = distinct (pattern, "
        "text, mode) triples with a wildcard or a boundary-sensitive outcome, distinct flatten "
        "lookups of escaped keys, and distinct ruleset evaluations with >=2 candidate rules")
ASSUMPTIONS = ["reference glob/word matcher and rule selection in vt/ref/{glob,pushrules}.py",
               "word boundaries: a match is demanded under the spec's strict reading and "
               "forbidden only outside the regex-\\b reading; in between is counted, not judged",
               "empty patterns and display names containing wildcards are not judged",
               "case folding compared only over characters that lower-case identically in Python "
               "and Rust"]

PAT_ALPHA = ["a", "b", "_", " ", "-", "*", "?", "\n"]
TXT_ALPHA = ["a", "b", "A", "_", " ", "-", "\n", "é"]


def layers(tier):
    return ["rel", "dbg"] if tier == "thorough" else ["rel"]


def floors(tier):
    return {"match_pairs": 300000, "match_true_expected": 20000, "flatten_lookups": 3000, "value_matrix_cells": 900,
            "ruleset_evals": 2000, "ruleset_matched": 500, "_distinct_nontrivial": 50000}


def strings(alpha, maxlen):
    for n in range(0, maxlen + 1):
        for t in itertools.product(alpha, repeat=n):
            yield "".join(t)


def judge_pair(rep, mode, pat, text, got, replay):
    rep.count("match_pairs")
    if mode == "key":
        rep.judged()
        want = refglob.glob_match(pat, text)
        if want:
            rep.count("match_true_expected")
        if got != want:
            rep.violation("glob_verdict_differs", "key:%r:%r" % (pat, text),
                          {"mode": mode, "pattern": pat, "text": text, "want": want, "got": got}, replay)
        if "*" in pat or "?" in pat:
            rep.case(h64(mode, pat, text))
        return
    if pat == "":
        rep.count("empty_pattern_not_judged")
        return
    if pat == text:
        strict = lenient = True      # the whole value always counts as a match of itself
    else:
        strict = refglob.word_match(pat, text, True)
        lenient = strict or refglob.word_match(pat, text, False)
    rep.judged()
    if strict:
        rep.count("match_true_expected")
    if strict != lenient:
        rep.count("grey_boundary_reading")
    if (strict and not got) or (got and not lenient):
        rep.violation("word_match_verdict_differs", "%s:%r:%r" % (mode, pat, text),
                      {"mode": mode, "pattern": pat, "text": text, "must_match": strict,
                       "may_match": lenient, "got": got}, replay)
    if "*" in pat or "?" in pat or strict != refglob.glob_match("*" + pat + "*", text):
        rep.case(h64(mode, pat, text))


def matcher_core(ctx, layer):
    rep = ctx.rep
    w = ctx.worker(layer)
    # wide alphabet, short strings
    grids = [(PAT_ALPHA, 3, TXT_ALPHA, 4)] if ctx.tier == "quick" else [(PAT_ALPHA, 4, TXT_ALPHA, 4)]
    if ctx.tier == "thorough" and layer == "rel":
        grids.append((PAT_ALPHA, 3, TXT_ALPHA, 5))
    # narrow alphabets, longer strings: repeated and overlapping partial occurrences, rescans after
    # a rejected occurrence (two word characters and one separator are enough to build them)
    if ctx.tier == "quick":
        grids.append((["a", "b", " "], 4, ["a", "b", " "], 7))
    else:
        grids.append((["a", "b", " "], 5, ["a", "b", " "], 8))
        grids.append((["a", " ", "*", "?"], 4, ["a", "b", " "], 7))
        grids.append((["a", "é", "-"], 4, ["a", "é", "-"], 7))
    pairs = []
    k = 0
    seen_pats = set()
    for gi, (pa, plen, ta, tlen) in enumerate(grids):
        texts = list(strings(ta, tlen))
        for p in strings(pa, plen):
            if gi == 0:
                seen_pats.add(p)
            elif p in seen_pats and tlen <= grids[0][3]:
                continue
            k += 1
            if not ctx.mine(k):
                continue
            for mode in ("body", "key", "displayname"):
                if mode == "displayname" and ("*" in p or "?" in p):
                    continue
                if mode == "key" and gi > 0 and not ("*" in p or "?" in p):
                    continue
                tl = texts if mode == "body" else texts[::3] if gi == 0 else texts[::2]
                pairs.append((mode, p, tl))
    pats = list(strings(PAT_ALPHA, grids[0][1]))
    texts = list(strings(TXT_ALPHA, grids[0][3]))
    for mode, p, tl in pairs:
        B = 4000
        for i in range(0, len(tl), B):
            chunk = tl[i:i + B]
            cmd = {"op": "push_match_batch", "mode": mode, "items": [[p, t] for t in chunk]}
            r = w.call(cmd)
            if handle_crash(rep, r, cmd, context=mode):
                continue
            for t, got in zip(chunk, r["ok"]):
                judge_pair(rep, mode, p, t, got,
                           {"op": "push_match_batch", "mode": mode, "items": [[p, t]]})
    # random longer pairs
    rng = ctx.rng
    n = (6000 if ctx.tier == "quick" else 200000) // ctx.nshards
    items = {"body": [], "key": [], "displayname": []}
    words = ["foo", "bar", "foobar", "fo", "o", "a_b", "x-y", "é", "été", "foo\nbar", "FOO", "f.o", "a*b"]
    for _ in range(n):
        mode = rng.choice(["body", "body", "key", "displayname"])
        base = rng.choice(words)
        r = rng.random()
        if r < 0.5:
            pat = "".join(rng.choice(["*", "?", "**", "*?", c]) if rng.random() < 0.3 else c for c in base)
        elif r < 0.8:
            pat = rng.choice(["*", "?", ""]) + base + rng.choice(["*", "?", "", "**"])
        else:
            pat = "".join(rng.choice(PAT_ALPHA) for _ in range(rng.randint(1, 7)))
        if mode == "displayname":
            pat = pat.replace("*", "").replace("?", "") or "x"
        pieces = []
        for _ in range(rng.randint(0, 5)):
            pieces.append(rng.choice(words + [base[:-1], base + base, base[1:], "", " ", "-", "\n", ".", "é", "_"]))
            pieces.append(rng.choice(["", " ", "", "-", "_", "\n", "é", ","]))
        text = "".join(pieces)
        if rng.random() < 0.2:
            text = base
        items[mode].append([pat, text])
    for mode, its in items.items():
        for i in range(0, len(its), 2000):
            chunk = its[i:i + 2000]
            cmd = {"op": "push_match_batch", "mode": mode, "items": chunk}
            r = w.call(cmd)
            if handle_crash(rep, r, cmd, context=mode):
                continue
            for (p, t), got in zip(chunk, r["ok"]):
                rep.count("random_pairs")
                judge_pair(rep, mode, p, t, got,
                           {"op": "push_match_batch", "mode": mode, "items": [[p, t]]})
    if ctx.shard == 0 and layer == "rel":
        rep.sample({"matcher_core": {"patterns": len(pats), "texts": len(texts),
                                     "example_pairs": [["a*", "b a\nb"], ["?_", "a_ b"]]}})


TRICKY_KEYS = ["a", "b.c", "m.mentions", "a\\b", "a\\.b", ".", "\\", "", "x.", ".x", "content", "body",
               "é", "a.b.c", "\\\\", "k"]


def rand_event_value(rng, depth):
    r = rng.random()
    if depth <= 0 or r < 0.5:
        q = rng.random()
        if q < 0.3:
            return rng.choice(["s", "foo bar", "", "é", "1"])
        if q < 0.5:
            return rng.choice([0, 1, -1, g.MAXI, -g.MAXI, 42])
        if q < 0.6:
            return rng.choice([True, False, None])
        if q < 0.7:
            return g.BadNum(rng.choice(["1.5", "1e2", "9007199254740992", "-9007199254740992", "1e400", "0.0"]))
        if q < 0.85:
            return [rng.choice([1, "x", None, True, {}, [1], g.BadNum("2.5"), "y", 2]) for _ in range(rng.randint(0, 4))]
        return {}
    return {rng.choice(TRICKY_KEYS): rand_event_value(rng, depth - 1) for _ in range(rng.randint(1, 4))}


def strip_bad(v):
    """Python value of an AST where BadNum leaves become floats (dropped by the reference)."""
    if isinstance(v, g.BadNum):
        return float("nan")
    if isinstance(v, list):
        return [strip_bad(x) for x in v]
    if isinstance(v, dict):
        return {k: strip_bad(x) for k, x in v.items()}
    return v


def flattening(ctx, layer):
    rng = ctx.rng
    rep = ctx.rep
    w = ctx.worker(layer)
    n = (400 if ctx.tier == "quick" else 20000) // ctx.nshards + 1
    cmds, meta = [], []
    for _ in range(n):
        ev = {rng.choice(["content", "a", "type", "b.c"]): rand_event_value(rng, 4) for _ in range(rng.randint(1, 3))}
        flat = ref.flatten(strip_bad(ev))
        paths = set(flat.keys())
        for p in list(paths):
            paths.add(p.replace("\\.", "."))
            paths.add(p.replace("\\\\", "\\"))
            paths.add(p + ".x")
            if "." in p:
                paths.add(p.rsplit(".", 1)[0])
        paths.discard("")
        text = g.render(ev)
        cmds.append({"op": "flatten", "event": text, "paths": sorted(paths)})
        meta.append((ev, flat))
    for cmd, (ev, flat), r in zip(cmds, meta, w.call_many(cmds)):
        if handle_crash(rep, r, cmd, context="flatten"):
            continue
        if "1e400" in cmd["event"]:
            # not convertible to a JSON value at all: only "no panic" is demanded
            rep.count("flatten_unconvertible_event_not_judged")
            continue
        for p, got in r["ok"].items():
            rep.count("flatten_lookups")
            rep.judged()
            want = flat.get(p, KeyError)
            if want is KeyError:
                okay = got.get("absent") is True
            elif want is ref.EMPTY_OBJECT:
                okay = got.get("empty_object") is True
            else:
                okay = "v" in got and json.dumps(got["v"]) == json.dumps(want) and \
                    got.get("get_str") == (want if isinstance(want, str) else None)
            if not okay:
                rep.violation("flatten_lookup_differs", "flatten:%r" % p,
                              {"event": cmd["event"][:1500], "path": p,
                               "want": "absent" if want is KeyError else want, "got": got}, cmd)
            if "\\" in p:
                rep.case(h64("flat", cmd["event"], p))


def rand_condition(rng, users):
    k = rng.choice(["event_match", "event_match", "contains_display_name", "room_member_count",
                    "sender_notification_permission", "event_property_is", "event_property_contains"])
    if k == "event_match":
        key = rng.choice(["content.body", "content.msgtype", "type", "sender", "room_id", "content.k\\.x",
                          "state_key", "content.missing"])
        pat = rng.choice(["foo", "m.text", "m.*", "*", "m.room.message", "f?o", "@a*", "!r*", "bar*", "v"])
        return {"kind": k, "key": key, "pattern": pat}
    if k == "contains_display_name":
        return {"kind": k}
    if k == "room_member_count":
        return {"kind": k, "is": rng.choice(["", "==", "<", ">", "<=", ">="]) + str(rng.choice([0, 1, 2, 3, 10]))}
    if k == "sender_notification_permission":
        return {"kind": k, "key": rng.choice(["room", "room", "other"])}
    # both value conditions are asked about every shape of property (scalar, array, empty / non-empty object)
    keys = ["content.n", "content.b", "content.body", "content.k\\.x", "content.arr", "content.m\\.mentions.user_ids",
            "content.obj", "content.m\\.mentions", "content.missing"]
    return {"kind": k, "key": rng.choice(keys), "value": rng.choice([1, 2, True, False, None, "foo", "v", "1", "x", "@me:x.org", 0, ""])}


def rulesets(ctx, layer):
    rng = ctx.rng
    rep = ctx.rep
    w = ctx.worker(layer)
    users = ["@a:x.org", "@b:x.org", "@me:x.org"]
    rooms = ["!r:x.org", "!s:x.org"]
    n = (3000 if ctx.tier == "quick" else 150000) // ctx.nshards
    cmds, meta = [], []
    for _ in range(n):
        rs = {}
        for kind in ref.KIND_ORDER:
            rules = []
            used = set()
            for _ in range(rng.randint(0, 3)):
                base = {"default": False, "enabled": rng.random() < 0.75,
                        "actions": rng.choice([["notify"], [], ["notify", {"set_tweak": "highlight"}]])}
                if kind in ("override", "underride"):
                    rid = rng.choice(["r1", "r2", "r3", ".m.rule.contains_display_name", ".m.rule.roomnotif", ".m.rule.master"])
                    base["conditions"] = [rand_condition(rng, users) for _ in range(rng.randint(0, 2))]
                elif kind == "content":
                    rid = rng.choice(["c1", "c2", ".m.rule.contains_user_name"])
                    base["pattern"] = rng.choice(["foo", "me", "f*", "bar", "*", "o"])
                elif kind == "room":
                    rid = rng.choice(rooms)
                    if rng.random() < 0.25:
                        # not identical to any room ID: other case, glob characters
                        rid = rng.choice(["!R:x.org", "!*:x.org", "!?:x.org", "!r:X.ORG", "!r:x.or?", "!t:x.org", "!*"])
                else:
                    rid = rng.choice(users)
                    if rng.random() < 0.25:
                        rid = rng.choice(["@A:x.org", "@*:x.org", "@?:x.org", "@a:X.org", "@c:x.org"])
                if rid in used:
                    continue
                used.add(rid)
                base["rule_id"] = rid
                base["default"] = rid.startswith(".")
                rules.append(base)
            if rules:
                rs[kind] = rules
        sender = rng.choice(users)
        content = {"body": rng.choice(["foo", "a foo b", "hello me", "barfoo", "Foo!", "x", "m"]),
                   "msgtype": rng.choice(["m.text", "m.notice"])}
        if rng.random() < 0.3:
            content["m.mentions"] = rng.choice([{}, {"user_ids": ["@me:x.org"]}, {"room": True}])
        if rng.random() < 0.4:
            content["n"] = rng.choice([1, 2, "1"])
            content["b"] = rng.choice([True, False, None])
            content["arr"] = rng.choice([[1, "x"], [], ["@me:x.org", None], [None], [True, 0, ""]])
            content["obj"] = rng.choice([{}, {"a": 1}, [], None, 0])
            content["k.x"] = "v"
        room = rng.choice(rooms)
        ev = {"type": rng.choice(["m.room.message", "m.room.member"]), "sender": sender,
              "room_id": room, "event_id": "$e", "content": content}
        if rng.random() < 0.12:
            # no usable sender: absent, not a string, not a user ID
            bad = rng.choice(["absent", 5, None, ["@a:x.org"], "not-a-user-id", "@nocolon", "a:x.org", ""])
            if bad == "absent":
                del ev["sender"]
            else:
                ev["sender"] = bad
        if rng.random() < 0.2:
            ev["state_key"] = rng.choice(users)
        pl = None
        if rng.random() < 0.7:
            pl = {"users": {u: rng.choice([0, 50, 100]) for u in users if rng.random() < 0.5},
                  "users_default": rng.choice([0, 50]), "notifications_room": rng.choice([0, 50, 100])}
        c = {"room_id": room, "user_id": "@me:x.org", "user_display_name": rng.choice(["me", "Foo", "hello me"]),
             "member_count": rng.choice([1, 2, 3, 10]), "power_levels": pl}
        cmds.append({"op": "push_eval", "ruleset": json.dumps(rs), "event": json.dumps(ev), "ctx": c})
        meta.append((rs, ev, c))
    for cmd, (rs, ev, c), r in zip(cmds, meta, w.call_many(cmds)):
        if handle_crash(rep, r, cmd, context="push_eval"):
            continue
        if "ok" not in r:
            raise RuntimeError("probe error %r for %r" % (r, cmd))
        rep.count("ruleset_evals")
        strict = ref.get_match(rs, ev, c, True)
        lenient = ref.get_match(rs, ev, c, False)
        got = r["ok"]["match"]
        got_t = (got["kind"], got["rule_id"]) if got else None
        if strict != lenient:
            rep.count("grey_boundary_reading")
            continue
        if ref.get_match(rs, ev, c, True, id_glob=True) != strict:
            # a room / sender rule whose id is not identical to the room / user id but matches it as
            # a glob: literal and implicit-condition readings of the spec differ, not judged
            rep.count("grey_rule_id_reading")
            continue
        rep.judged()
        if strict is not None:
            rep.count("ruleset_matched")
        if got_t != strict:
            rep.violation("matched_rule_differs", json.dumps(strict),
                          {"ruleset": rs, "event": ev, "ctx": c, "want": strict, "got": got}, cmd)
        else:
            want_actions = []
            if strict:
                want_actions = [x for x in rs[strict[0]] if x["rule_id"] == strict[1]][0]["actions"]
            if r["ok"]["actions"] != want_actions:
                rep.violation("actions_differ", json.dumps(strict),
                              {"want": want_actions, "got": r["ok"]["actions"]}, cmd)
        ncand = sum(len(v) for v in rs.values())
        rep.case(h64("rs", cmd["ruleset"], cmd["event"], json.dumps(c, sort_keys=True)), ncand >= 2)
    if ctx.shard == 0 and layer == "rel" and cmds:
        rep.sample({"push_eval": {k: cmds[0][k] for k in ("ruleset", "event", "ctx")}})


VALUE_MATRIX_COND = [None, True, False, 0, 1, -1, "1", "", "x", "true", "null"]
VALUE_MATRIX_PROP = ["absent", None, True, False, 0, 1, -1, "1", "", "x", "true", "null", [], [None], [1, "x"], [True, False],
                     ["1"], [[]], {}, {"a": 1}, [{}], 9007199254740991]


def value_matrix(ctx, layer):
    """exact-value conditions: every condition value x every shape of property, exhaustively"""
    rep = ctx.rep
    w = ctx.worker(layer)
    cmds, meta = [], []
    k = 0
    for kind in ("event_property_is", "event_property_contains"):
        for cv in VALUE_MATRIX_COND:
            for pv in VALUE_MATRIX_PROP:
                for key in ("content.p", "content.q\\.r"):
                    k += 1
                    if not ctx.mine(k):
                        continue
                    content = {"body": "b"}
                    if not (isinstance(pv, str) and pv == "absent"):
                        content["p" if key == "content.p" else "q.r"] = pv
                    ev = {"type": "m.room.message", "sender": "@a:x.org", "room_id": "!r:x.org", "event_id": "$e", "content": content}
                    cond = {"kind": kind, "key": key, "value": cv}
                    c = {"room_id": "!r:x.org", "user_id": "@me:x.org", "user_display_name": "me", "member_count": 2, "power_levels": None}
                    cmds.append({"op": "condition_applies", "condition": json.dumps(cond), "event": json.dumps(ev), "ctx": c})
                    meta.append((cond, ev, c))
    for cmd, (cond, ev, c), r in zip(cmds, meta, w.call_many(cmds)):
        if handle_crash(rep, r, cmd, context="condition_applies"):
            continue
        if "ok" not in r:
            raise RuntimeError("probe error %r for %r" % (r, cmd))
        rep.judged()
        rep.count("value_matrix_cells")
        want = ref.condition(cond, ref.flatten(ev), c, True)
        if r["ok"] != want:
            rep.violation("value_condition_differs", "%s:%s:%s" % (cond["kind"], json.dumps(cond["value"]), json.dumps(ev["content"])),
                          {"condition": cond, "event": ev, "want": want, "got": r["ok"]}, cmd)
        rep.case(h64("vm", cmd["condition"], cmd["event"]))


def shard(ctx):
    for layer in layers(ctx.tier):
        matcher_core(ctx, layer)
        flattening(ctx, layer)
        value_matrix(ctx, layer)
        rulesets(ctx, layer)
