"""C09 — auth-event selection matches the spec and authorization reads nothing else."""
import copy
import json

from ..gen import authgen
from ..ref import auth as ref
from ..report import h64
from ..worker import handle_crash

PROPERTY = "C09"
RULE = ("the C08 triples (product families and the random rooms / events family) plus malformed contents (missing / ill-typed membership, "
        "third_party_invite without signed / token, invalid authorising user). For each: (1) "
        "auth_types_for_event must equal the spec's auth-event selection as a set (or both report "
        "malformed content); (2) read-set monitor: every (type, state_key) that auth_check asks its "
        "fetch_state closure for must be in the selected set; (3) non-interference: 3 (quick) / 5 "
        "(thorough) perturbed states that add, remove or replace entries outside the selected "
        "pairs (other users' memberships, join rules / power-unrelated state when not selected, a "
        "third-party-invite event with another token, unrelated state events) must give the same "
        "Ok/Err. evaluations = judgements; distinct_nontrivial = distinct (triple, perturbation) "
        "pairs plus distinct member-event selections")
ASSUMPTIONS = ["selection rule transcribed in vt/ref/auth.py:auth_types (spec: 'auth events "
               "selection')", "the adapter's fetch_state closure logs exactly the arguments ruma "
                              "passes to it"]


def layers(tier):
    return ["rel"]


def floors(tier):
    return {"selections": 30000, "read_sets_checked": 30000, "perturbations": 60000, "reads_observed": 100000,
            "selection_errors_expected": 30, "_distinct_nontrivial": 60000}


def selection_extras():
    """events with malformed content for the selection itself"""
    out = []
    for v in authgen.VERSIONS:
        for content in ({"membership": "invite", "third_party_invite": {"signed": {"mxid": "@a:b"}}},
                        {"membership": "invite", "third_party_invite": {"display_name": "x"}},
                        {"membership": "invite", "third_party_invite": "x"},
                        {"membership": "invite", "third_party_invite": {"signed": {"token": 5}}},
                        {"membership": "join", "join_authorised_via_users_server": "nope"},
                        {"membership": "join", "join_authorised_via_users_server": 5},
                        {"membership": "leave", "join_authorised_via_users_server": "@c:hs1.org"},
                        {"membership": "knock", "third_party_invite": {"signed": {"token": "t"}}},
                        {"membership": ["join"]}, {}, {"membership": "org.custom"},
                        # fields that only matter for another membership, present and ill-formed
                        {"membership": "join", "third_party_invite": {}}, {"membership": "leave", "third_party_invite": {"display_name": "x"}},
                        {"membership": "ban", "third_party_invite": "x"}, {"membership": "knock", "third_party_invite": 5},
                        {"membership": "leave", "third_party_invite": {"signed": {"mxid": "@a:b"}}},
                        {"membership": "join", "third_party_invite": None},
                        {"membership": "invite", "join_authorised_via_users_server": 5},
                        {"membership": "ban", "join_authorised_via_users_server": "nope"},
                        {"membership": "knock", "join_authorised_via_users_server": ["@c:hs1.org"]}):
            b = authgen.Builder(v)
            b.create()
            ev = b.event("m.room.member", authgen.ALICE, content, state_key=authgen.BOB)
            out.append(b.triple(ev, "selection:malformed"))
        b = authgen.Builder(v)
        b.create()
        out.append(b.triple(b.event("m.room.member", authgen.ALICE, {"membership": "join"}), "selection:no-state-key"))
    return out


def perturb(rng, t, selected, k):
    """a state that differs from t's only outside the selected pairs"""
    state = copy.deepcopy(t["state"])
    b = authgen.Builder(t["version"])
    b.n = 500 + k
    for _ in range(rng.randint(1, 3)):
        r = rng.random()
        if r < 0.25:
            user = "@extra%d:hs3.org" % rng.randint(0, 9)
            if ("m.room.member", user) not in selected:
                state = [e for e in state if (e["type"], e["state_key"]) != ("m.room.member", user)]
                state.append(b.put("m.room.member", user, user, {"membership": rng.choice(["join", "ban", "invite", "leave", "knock"])}))
        elif r < 0.45:
            for key, content in ((("m.room.join_rules", ""), {"join_rule": rng.choice(["public", "invite", "knock", "restricted", "private"])}),
                                 (("m.room.third_party_invite", "othertoken"), {"display_name": "x", "public_key": "AAAA", "key_validity_url": "https://x"}),
                                 (("m.room.name", ""), {"name": "n"}), (("m.room.topic", ""), {"topic": "t"}),
                                 (("m.room.history_visibility", ""), {"history_visibility": "joined"}),
                                 (("m.room.power_levels", "x"), {"users_default": 100})):
                if key not in selected and rng.random() < 0.5:
                    state = [e for e in state if (e["type"], e["state_key"]) != key]
                    state.append(b.put(key[0], key[1], authgen.CREATOR, content))
        elif r < 0.7:
            # remove an entry outside the selection
            cands = [e for e in state if (e["type"], e["state_key"]) not in selected]
            if cands:
                victim = rng.choice(cands)
                state = [e for e in state if e is not victim]
        else:
            # replace an entry outside the selection by something hostile
            cands = [e for e in state if (e["type"], e["state_key"]) not in selected]
            if cands:
                victim = rng.choice(cands)
                victim["content"] = rng.choice([{"membership": "ban"}, {"membership": 5}, {}, {"join_rule": "public"},
                                                {"users": {"x": "y"}}, {"users_default": 1000}])
    return dict(t, state=state)


def shard(ctx):
    rep = ctx.rep
    rng = ctx.rng
    w = ctx.worker("rel")
    nper = 3 if ctx.tier == "quick" else 5
    fams = authgen.all_families() + [("selection-extras", selection_extras),
                                     ("random", authgen.random_family(ctx.seed, 15000 if ctx.tier == "quick" else 300000))]
    for fname, fam in fams:
        batch = []

        def flush():
            if not batch:
                return
            # (1) selection
            sel_cmd = {"op": "auth_types_batch", "items": [
                {"version": str(t["version"]), "type": t["event"]["type"], "sender": t["event"]["sender"],
                 "state_key": t["event"].get("state_key"), "content": t["event"]["content"]} for t in batch]}
            sel_cmd["items"] = [{k: v for k, v in it.items() if v is not None} for it in sel_cmd["items"]]
            rs = w.call(sel_cmd, per_op_timeout=60)
            if handle_crash(rep, rs, sel_cmd, context="auth_types"):
                batch.clear()
                return
            items, meta = [], []
            for t, got in zip(batch, rs["ok"]):
                rep.count("selections")
                rep.judged()
                ev = t["event"]
                replay = {"op": "auth_types", "version": str(t["version"]), "type": ev["type"], "sender": ev["sender"],
                          "state_key": ev.get("state_key"), "content": ev["content"]}
                try:
                    content = json.loads(ev["content"]) if isinstance(ev["content"], str) else ev["content"]
                    want = ref.auth_types(t["version"], dict(ev, content=content))
                except ref.Malformed:
                    want = None
                    rep.count("selection_errors_expected")
                key = "v%d:%s" % (t["version"], t["tag"])
                if want is None:
                    if "ok" in got:
                        rep.violation("selection_accepts_malformed_content", key, {"event": ev, "got": got}, replay)
                    continue
                if "ok" not in got or {tuple(x) for x in got["ok"]} != want or len(got["ok"]) != len(want):
                    rep.violation("auth_event_selection_differs", key,
                                  {"event": ev, "want": sorted(want), "got": got}, replay)
                    continue
                if ev["type"] == "m.room.member":
                    rep.case(h64("sel", str(t["version"]), json.dumps(ev["content"], sort_keys=True), ev.get("state_key") or ""))
                # (2)+(3): base run and perturbed runs
                base = {"version": str(t["version"]), "event": ev, "state": t["state"]}
                items.append(base)
                meta.append((t, want, "base", None))
                for k in range(nper):
                    p = perturb(rng, t, want, k)
                    items.append({"version": str(p["version"]), "event": ev, "state": p["state"]})
                    meta.append((t, want, "perturbed", len(items) - 1 - k - 1))
            if items:
                cmd = {"op": "auth_check_batch", "items": items}
                r = w.call(cmd, per_op_timeout=120)
                if handle_crash(rep, r, cmd, context=fname):
                    batch.clear()
                    return
                results = r["ok"]
                for i, ((t, want, kind, base_idx), res) in enumerate(zip(meta, results)):
                    rep.judged()
                    key = "v%d:%s" % (t["version"], t["tag"])
                    reads = {tuple(x) for x in res["reads"]}
                    rep.count("reads_observed", len(reads))
                    rep.count("read_sets_checked")
                    outside = reads - want
                    if outside:
                        rep.violation("authorization_reads_unselected_state", key,
                                      {"event": t["event"], "selected": sorted(want), "read_outside": sorted(outside)},
                                      {"op": "auth_check", **items[i]})
                    if kind == "perturbed":
                        rep.count("perturbations")
                        rep.case(h64("pert", json.dumps(items[i], sort_keys=True)))
                        b0 = results[base_idx]
                        if ("ok" in b0["result"]) != ("ok" in res["result"]):
                            base_keys = {(e["type"], e["state_key"]): e["content"] for e in items[base_idx]["state"]}
                            pert_keys = {(e["type"], e["state_key"]): e["content"] for e in items[i]["state"]}
                            diff = [str(k2) for k2 in set(base_keys) | set(pert_keys) if base_keys.get(k2) != pert_keys.get(k2)]
                            rep.violation("verdict_depends_on_unselected_state", key,
                                          {"event": t["event"], "selected": sorted(want), "changed_entries": diff,
                                           "base": b0["result"], "perturbed": res["result"]},
                                          {"ops": [{"op": "auth_check", **items[base_idx]}, {"op": "auth_check", **items[i]}]})
            batch.clear()
        k = 0
        for t in fam():
            k += 1
            if not ctx.mine(k):
                continue
            if ctx.tier == "quick" and fname in ("membership", "ordinary") and (k // ctx.nshards) % 2:
                continue
            batch.append(t)
            if len(batch) >= 150:
                flush()
        flush()
    if ctx.shard == 0:
        ctx.rep.sample({"perturbation_kinds": ["add member of an unrelated user", "add/replace join_rules / tpi(other token) / name / topic "
                                               "when not selected", "remove an unselected entry", "replace an unselected entry by hostile content"]})
