"""C18 — typed event (de)serialization dispatches by type and is a stable fixpoint."""
import copy
import json

from ..gen import events as ge
from ..gen import jsongen as g
from ..ref import redact as redact_ref
from ..report import h64
from ..worker import handle_crash

PROPERTY = "C18"
RULE = ("events generated from the spec's schemas (22 state types, 12 m.room.message msgtypes with "
        "every relation kind and mentions, 19 other message-like types, ephemeral, account-data and "
        "to-device types, wildcard m.secret_storage.key.*, unknown event types): required fields "
        "always, optional fields present/absent, unknown fields at every object level, keys "
        "permuted, in full / sync / stripped formats, original and redacted (content redacted by "
        "the reference table for a random room version 1-11, unsigned.redacted_because attached). "
        "Observed: deserialization into 12 Any*Event enums (variant path, event_type, sender, ids, "
        "timestamp, state key), Any*EventContent::from_parts -> to_string -> from_parts -> "
        "to_string, and Raw::{from_json_string, json, get_field, deserialize, cast_ref, clone} on "
        "texts with whitespace, permuted and duplicate keys. evaluations = oracle judgements; "
        "distinct_nontrivial = distinct event instances with an optional or unknown field, a "
        "relation or in redacted form")
ASSUMPTIONS = ["event schemas transcribed from the client-server spec (vt/gen/events.py)",
               "expected variant names are derived from the event type by the naming convention "
               "m.room.member -> RoomMember; the check only requires that the Debug path contains "
               "that name (or _Custom for unknown types) and Original/Redacted as appropriate"]


def layers(tier):
    return ["rel", "dbg"] if tier == "thorough" else ["rel"]


def floors(tier):
    return {"redacted_content_roundtrips": 300, "events_deserialized": 6000, "redacted_forms": 1200, "content_roundtrips": 4000,
            "raw_texts": 1500, "custom_types": 200, "_distinct_nontrivial": 4000}


def fmt(o):
    return json.dumps(o, ensure_ascii=False, separators=(",", ":"))


def permuted(rng, o):
    if isinstance(o, dict):
        keys = list(o)
        rng.shuffle(keys)
        return {k: permuted(rng, o[k]) for k in keys}
    if isinstance(o, list):
        return [permuted(rng, x) for x in o]
    return o


def pairs_no_dups(text):
    dups = []

    def hook(pairs):
        keys = [k for k, _ in pairs]
        if len(set(keys)) != len(keys):
            dups.append(keys)
        return dict(pairs)
    v = json.loads(text, object_pairs_hook=hook)
    return v, dups


def common_paths_differ(a, b, path=""):
    """values present in both must be equal; returns first differing path or None"""
    if isinstance(a, dict) and isinstance(b, dict):
        for k in a:
            if k in b:
                d = common_paths_differ(a[k], b[k], path + "/" + k)
                if d:
                    return d
        return None
    if isinstance(a, list) and isinstance(b, list):
        if len(a) != len(b):
            return path + " (array length)"
        for i, (x, y) in enumerate(zip(a, b)):
            d = common_paths_differ(x, y, "%s[%d]" % (path, i))
            if d:
                return d
        return None
    num = lambda x: isinstance(x, (int, float)) and not isinstance(x, bool)
    if num(a) and num(b):
        return None if a == b else path       # JSON numbers: 1 and 1.0 are the same value
    if type(a) is not type(b) or a != b:
        return path
    return None


ENUMS_FOR = {
    ("state", "full"): ["AnyTimelineEvent", "AnyStateEvent"],
    ("state", "sync"): ["AnySyncTimelineEvent", "AnySyncStateEvent"],
    ("state", "stripped"): ["AnyStrippedStateEvent"],
    ("message", "full"): ["AnyTimelineEvent", "AnyMessageLikeEvent"],
    ("message", "sync"): ["AnySyncTimelineEvent", "AnySyncMessageLikeEvent"],
}


REDACTED_WITH_FIELDS = {"m.room.power_levels", "m.room.member", "m.room.create", "m.room.join_rules", "m.room.history_visibility",
                        "m.room.aliases", "m.room.redaction"}


def near_miss_types(rng, etype):
    """unknown event types that are one edit away from a known one (or from a wildcard prefix)"""
    if etype.startswith("m.secret_storage.key."):
        return ["m.secret_storage.key", "m.secret_storage.key_backup", "m.secret_storage.keys", "m.secret_storage.ke",
                "m.secret_storage.keyx.y", "M.SECRET_STORAGE.KEY.x"]
    out = [etype + "x", etype + ".x", etype[:-1], etype + "_v2", etype.upper(), etype + "s", etype + "."]
    return [x for x in out if x and x != etype]


def gen_room_event(rng, kind):
    """-> (event_without_envelope_specifics...)"""
    if kind == "state":
        key = rng.choice(sorted(ge.STATE))
        content = ge.content_of(rng, ge.STATE, key)
        etype = ge.real_type(key)
        state_key = rng.choice(ge.USERS) if etype == "m.room.member" else "example.org" if etype == "m.room.aliases" else \
            (rng.choice(["", "tok"]) if etype == "m.room.third_party_invite" else
             (rng.choice(ge.ROOMS) if etype.startswith("m.space.") else
              ("rule1" if etype.startswith("m.policy") else "")))
        return etype, content, state_key, None
    if rng.random() < 0.4:
        content, _ = ge.message_content(rng)
        return "m.room.message", content, None, None
    key = rng.choice(sorted(ge.MESSAGE_LIKE))
    content = ge.content_of(rng, ge.MESSAGE_LIKE, key)
    etype = ge.real_type(key)
    redacts = None
    if etype == "m.room.redaction":
        # the redacted event's ID at the top level (room versions 1-10), inside content (11) or both
        shape = rng.choice(["top", "content", "both"])
        target = rng.choice(ge.EVENTS)
        content = {k: v for k, v in content.items() if k != "redacts"}
        if shape in ("content", "both"):
            content["redacts"] = target
        if shape in ("top", "both"):
            redacts = target
    return etype, content, None, redacts


def shard(ctx):
    rng = ctx.rng
    rep = ctx.rep
    n = (9000 if ctx.tier == "quick" else 300000) // ctx.nshards
    de_cmds, de_meta = [], []
    rt_cmds, rt_meta = [], []
    red_cmds, red_meta = [], []
    for _ in range(n):
        kind = rng.choice(["state", "message"])
        etype, content, state_key, redacts = gen_room_event(rng, kind)
        custom = False
        if rng.random() < 0.08:
            etype = rng.choice(["org.example.custom", "m.room.unknown_future_type", "x", "m.room.member.suffix"] + near_miss_types(rng, etype))
            content = g.rand_object(rng, 2, 3) if rng.random() < 0.5 else content
            custom = True
        fmtk = rng.choice(["full", "sync", "stripped"] if kind == "state" else ["full", "sync"])
        redacted = (not custom) and fmtk != "stripped" and rng.random() < 0.25
        nontrivial = False
        ev_content = copy.deepcopy(content)
        if redacted:
            version = rng.randint(1, 11)
            cands = [c for c in redact_ref.redact_content(ev_content, etype, version)
                     if not isinstance(c, redact_ref.RedactError)]
            ev_content = cands[0]
        if rng.random() < 0.5 and not redacted:
            ge.add_unknown_fields(rng, ev_content)
            nontrivial = True
        ev = ge.envelope(rng, etype, ev_content, fmtk, state_key=state_key, redacts=redacts)
        if redacted:
            ev.setdefault("unsigned", {})["redacted_because"] = ge.redaction_event(rng, fmtk, ev["event_id"])
            rep.count("redacted_forms")
            nontrivial = True
            if etype in REDACTED_WITH_FIELDS and ev_content:
                red_cmds.append({"op": "redacted_content_roundtrip", "ev_type": etype, "content": fmt(ev_content)})
                red_meta.append(ev_content)
        if rng.random() < 0.3:
            ev["org.example.unknown_top_level"] = {"x": [1, 2]}
            nontrivial = True
        if custom:
            rep.count("custom_types")
        text = fmt(ev)
        text_perm = fmt(permuted(rng, ev))
        spellings = [(text, "plain"), (text_perm, "permuted")]
        try:
            # same value, other JSON spelling: escapes (\\uXXXX, \\/), whitespace, key order
            spellings.append((g.render(ev, rng), "respelled"))
        except TypeError:
            pass
        for en in ENUMS_FOR[(kind, fmtk)]:
            for t, tag in spellings:
                de_cmds.append({"op": "event_de", "enum": en, "text": t})
                de_meta.append((ev, kind, fmtk, etype, custom, redacted, en, tag, nontrivial or len(content) > 1))
        # content round trip (original content only)
        if not custom:
            c2 = copy.deepcopy(content)
            if rng.random() < 0.5:
                ge.add_unknown_fields(rng, c2)
            k = "state" if kind == "state" else "message_like"
            rt_cmds.append({"op": "content_roundtrip", "kind": k, "ev_type": etype, "content": fmt(c2)})
            rt_meta.append((c2, "plain"))
            rt_cmds.append({"op": "content_roundtrip", "kind": k, "ev_type": etype, "content": fmt(permuted(rng, c2))})
            rt_meta.append((c2, "permuted"))
            try:
                rt_cmds.append({"op": "content_roundtrip", "kind": k, "ev_type": etype, "content": g.render(c2, rng)})
                rt_meta.append((c2, "respelled"))
            except TypeError:
                pass
    # m.room.message with unknown msgtypes at the top level and / or inside m.new_content, combined with
    # mentions and relations (fields that the custom-msgtype path must not keep twice)
    for _ in range((160 if ctx.tier == "quick" else 6000) // ctx.nshards + 1):
        def body(custom):
            c = {"msgtype": rng.choice(["org.example.custom", "m.future", "x"]) if custom else rng.choice(["m.text", "m.notice", "m.emote"]),
                 "body": rng.choice(["b", "* edited", ""])}
            if custom and rng.random() < 0.5:
                c["org.example.extra"] = {"k": [1, 2]}
            if rng.random() < 0.6:
                c["m.mentions"] = rng.choice([{}, {"user_ids": ["@a:example.org"]}, {"room": True}])
            return c
        c = body(rng.random() < 0.6)
        kind_rel = rng.choice(["none", "replace", "replace", "thread", "reply"])
        if kind_rel == "replace":
            c["m.relates_to"] = {"rel_type": "m.replace", "event_id": "$orig:example.org"}
            c["m.new_content"] = body(rng.random() < 0.6)
        elif kind_rel == "thread":
            c["m.relates_to"] = {"rel_type": "m.thread", "event_id": "$root:example.org", "is_falling_back": True,
                                 "m.in_reply_to": {"event_id": "$root:example.org"}}
        elif kind_rel == "reply":
            c["m.relates_to"] = {"m.in_reply_to": {"event_id": "$r:example.org"}}
        for spelling in ("plain", "permuted"):
            rt_cmds.append({"op": "content_roundtrip", "kind": "message_like", "ev_type": "m.room.message",
                            "content": fmt(c if spelling == "plain" else permuted(rng, c))})
            rt_meta.append((c, spelling))
        rep.count("custom_msgtype_contents")
    # m.room.redaction in every format, with `redacts` at the top level, inside content, or both
    if ctx.shard == 0:
        for fmtk in ("full", "sync"):
            for shape in ("top", "content", "both"):
                for reason in (False, True):
                    c = {"reason": "spam"} if reason else {}
                    if shape in ("content", "both"):
                        c["redacts"] = "$target:example.org"
                    ev = ge.envelope(rng, "m.room.redaction", c, fmtk, redacts="$target:example.org" if shape in ("top", "both") else None)
                    for en in ENUMS_FOR[("message", fmtk)]:
                        de_cmds.append({"op": "event_de", "enum": en, "text": fmt(ev)})
                        de_meta.append((ev, "message", fmtk, "m.room.redaction", False, False, en, "plain", True))
    # redacted contents that keep fields: every type x room version, and for power levels every scalar
    # field on and around its default (a field equal to a default may be omitted on output, never altered)
    cell = 0
    for etype in sorted(REDACTED_WITH_FIELDS):
        keys = [k for k in ge.STATE if ge.real_type(k) == etype]
        for version in range(1, 12):
            for _ in range(6 if ctx.tier == "quick" else 200):
                if keys:
                    c = ge.content_of(rng, ge.STATE, rng.choice(keys), p=0.8)
                elif etype == "m.room.redaction":
                    c = {"redacts": rng.choice(["$e:example.org", "$abc"]), "reason": "r"}
                else:
                    c = {"aliases": ["#a:example.org"][:rng.randint(0, 1)]}
                reds = [x for x in redact_ref.redact_content(c, etype, version) if not isinstance(x, redact_ref.RedactError)]
                cell += 1
                if reds and reds[0] and ctx.mine(cell):
                    red_cmds.append({"op": "redacted_content_roundtrip", "ev_type": etype, "content": fmt(reds[0])})
                    red_meta.append(reds[0])
    for version in range(1, 12):
        for field in ("ban", "kick", "invite", "redact", "state_default", "events_default", "users_default"):
            for val in (0, 1, 49, 50, 51, 100):
                c = {field: val, "users": {"@a:example.org": 50}}
                reds = [x for x in redact_ref.redact_content(c, "m.room.power_levels", version) if not isinstance(x, redact_ref.RedactError)]
                cell += 1
                if reds and reds[0] and ctx.mine(cell):
                    red_cmds.append({"op": "redacted_content_roundtrip", "ev_type": "m.room.power_levels", "content": fmt(reds[0])})
                    red_meta.append(reds[0])
    # other kinds
    other = []
    for _ in range(n // 3):
        r = rng.random()
        if r < 0.25:
            key = rng.choice(sorted(ge.TO_DEVICE))
            other.append(("to_device", ge.real_type(key), ge.content_of(rng, ge.TO_DEVICE, key), "to_device", ["AnyToDeviceEvent"]))
        elif r < 0.45:
            key = rng.choice(sorted(ge.EPHEMERAL))
            c = ge.receipt_content(rng) if key == "m.receipt" else ge.content_of(rng, ge.EPHEMERAL, key)
            f = rng.choice(["ephemeral", "sync_ephemeral"])
            other.append(("ephemeral", key, c, f, ["AnyEphemeralRoomEvent" if f == "ephemeral" else "AnySyncEphemeralRoomEvent"]))
        elif r < 0.75:
            key = rng.choice(sorted(ge.GLOBAL_ACCOUNT))
            c = ge.direct_content(rng) if key == "m.direct" else ge.content_of(rng, ge.GLOBAL_ACCOUNT, key)
            other.append(("global_account_data", key, c, "account", ["AnyGlobalAccountDataEvent"]))
        else:
            key = rng.choice(sorted(ge.ROOM_ACCOUNT))
            other.append(("room_account_data", key, ge.content_of(rng, ge.ROOM_ACCOUNT, key), "account", ["AnyRoomAccountDataEvent"]))
    for kindname, etype, content, f, enums in other:
        c2 = copy.deepcopy(content)
        if rng.random() < 0.4 and etype not in ("m.direct", "m.receipt"):
            ge.add_unknown_fields(rng, c2, 1)
        custom = False
        if rng.random() < 0.12:
            # an unknown type one edit away from this one: must land in the custom variant
            etype = rng.choice(near_miss_types(rng, ge.real_type(etype) if not etype.startswith("m.") else etype))
            custom = True
            rep.count("custom_types")
        ev = ge.envelope(rng, etype, c2, f)
        for en in enums:
            de_cmds.append({"op": "event_de", "enum": en, "text": fmt(ev)})
            de_meta.append((ev, kindname, f, etype, custom, False, en, "plain", len(content) > 0))
        if custom:
            continue
            try:
                de_cmds.append({"op": "event_de", "enum": en, "text": g.render(ev, rng)})
                de_meta.append((ev, kindname, f, etype, False, False, en, "respelled", len(content) > 0))
            except TypeError:
                pass
        rt_cmds.append({"op": "content_roundtrip", "kind": kindname, "ev_type": etype, "content": fmt(c2)})
        rt_meta.append((c2, "plain"))

    for layer in layers(ctx.tier):
        w = ctx.worker(layer)
        # ---- deserialization into the typed enums ----
        replies = w.call_many(de_cmds)
        by_event = {}
        for cmd, meta, r in zip(de_cmds, de_meta, replies):
            ev, kind, fmtk, etype, custom, redacted, en, tag, nontrivial = meta
            rep.count("events_deserialized")
            rep.judged()
            key = "%s:%s:%s" % (en, etype, "redacted" if redacted else "original")
            if handle_crash(rep, r, cmd, context=en):
                continue
            res = r["ok"]
            rep.case(h64(cmd["text"], en), nontrivial)
            if "ok" not in res:
                rep.violation("spec_shaped_event_rejected", key,
                              {"enum": en, "type": etype, "redacted": redacted, "error": res.get("err"),
                               "event": cmd["text"][:2500]}, cmd)
                continue
            d = res["ok"]
            v = d["variant"]
            want_name = "_Custom" if custom else ge.variant_name(etype.rsplit(".", 1)[0] if etype.startswith("m.secret_storage.key.") else etype)
            problems = []
            if want_name not in v:
                problems.append("variant path %r lacks %s" % (v, want_name))
            if not custom and kind in ("state", "message") and fmtk != "stripped":
                if redacted and "Redacted(" not in v:
                    problems.append("event with unsigned.redacted_because not in the redacted variant: %r" % v)
                if not redacted and "Original(" not in v:
                    problems.append("original event not in the original variant: %r" % v)
            if en in ("AnyTimelineEvent", "AnySyncTimelineEvent"):
                top = "State(" if kind == "state" else "MessageLike("
                if not v.startswith(top):
                    problems.append("timeline event dispatched to %r, expected %s" % (v[:30], top))
            if d.get("event_type") != etype:
                problems.append("event_type() = %r" % d.get("event_type"))
            for acc, field in (("sender", "sender"), ("event_id", "event_id"), ("origin_server_ts", "origin_server_ts"),
                               ("room_id", "room_id"), ("state_key", "state_key")):
                if acc in d and d[acc] is not None and field in ev and d[acc] != ev[field]:
                    problems.append("%s() = %r but JSON has %r" % (acc, d[acc], ev[field]))
            if "is_redacted" in d and d["is_redacted"] != redacted:
                problems.append("is_redacted() = %r" % d["is_redacted"])
            if problems:
                rep.violation("typed_event_differs_from_json", key,
                              {"enum": en, "problems": problems, "event": cmd["text"][:2500]}, cmd)
            # key-order independence
            bk = (id(ev), en)
            if bk in by_event:
                rep.judged()
                if by_event[bk] != d:
                    rep.violation("result_depends_on_key_order_or_spelling", key,
                                  {"enum": en, "a": by_event[bk], "b": d, "event": cmd["text"][:2000]}, cmd)
            else:
                by_event[bk] = d
        # ---- content fixpoint ----
        replies = w.call_many(rt_cmds)
        first = {}
        for cmd, (content, tag), r in zip(rt_cmds, rt_meta, replies):
            rep.count("content_roundtrips")
            rep.judged()
            key = "%s:%s" % (cmd["kind"], cmd["ev_type"])
            if handle_crash(rep, r, cmd, context="content"):
                continue
            res = r["ok"]
            if "s2" not in res:
                rep.violation("content_round_trip_fails", key, {"result": res, "content": cmd["content"][:2000]}, cmd)
                continue
            problems = []
            if res["s1"] != res["s2"]:
                problems.append("not a fixpoint: second serialization differs")
            if res.get("variant") != res.get("variant2"):
                problems.append("variant changed: %r -> %r" % (res.get("variant"), res.get("variant2")))
            try:
                out, dups = pairs_no_dups(res["s1"])
                if dups:
                    problems.append("duplicate keys in output: %r" % dups[:2])
                diff = common_paths_differ(content, out)
                if diff:
                    problems.append("value present in input changed at %s" % diff)
            except Exception as e:
                problems.append("output is not valid JSON: %s" % e)
            if problems:
                rep.violation("content_serialization_problem", key,
                              {"problems": problems, "input": cmd["content"][:2000], "output": res["s1"][:2000]}, cmd)
            ck = id(content)
            if ck in first:
                rep.judged()
                if first[ck] != res["s1"]:
                    rep.violation("content_depends_on_key_order_or_spelling", key,
                                  {"a": first[ck][:1500], "b": res["s1"][:1500]}, cmd)
            else:
                first[ck] = res["s1"]
        # ---- redacted content types that keep fields: same fixpoint / no-value-changed rules ----
        for cmd, content, r in zip(red_cmds, red_meta, w.call_many(red_cmds)):
            rep.count("redacted_content_roundtrips")
            rep.judged()
            key = "redacted:%s" % cmd["ev_type"]
            if handle_crash(rep, r, cmd, context="redacted-content"):
                continue
            res = r["ok"]
            if "s2" not in res:
                rep.violation("content_round_trip_fails", key, {"result": res, "content": cmd["content"][:2000]}, cmd)
                continue
            problems = []
            if res["s1"] != res["s2"] or not res["debug_equal"]:
                problems.append("not a fixpoint: the second parse / serialization differs from the first (typed values equal: %s)" % res["debug_equal"])
            try:
                out, dups = pairs_no_dups(res["s1"])
                if dups:
                    problems.append("duplicate keys in output: %r" % dups[:2])
                diff = common_paths_differ(content, out)
                if diff:
                    problems.append("value present in input changed at %s" % diff)
                # (a key may be omitted from the output when it holds the field's default; whether it
                # does is decided by comparing the typed values of the first and the second parse)
            except Exception as e:
                problems.append("output is not valid JSON: %s" % e)
            if problems:
                rep.violation("content_serialization_problem", key,
                              {"problems": problems, "input": cmd["content"][:2000], "output": res["s1"][:2000]}, cmd)
        # ---- Raw ----
        raw_cmds, raw_meta = [], []
        for _ in range((2400 if ctx.tier == "quick" else 80000) // ctx.nshards):
            kind = rng.choice(["state", "message"])
            etype, content, state_key, redacts = gen_room_event(rng, kind)
            ev = ge.envelope(rng, etype, content, "sync", state_key=state_key, redacts=redacts)
            style = rng.random()
            has_dups = False
            if style < 0.4:
                text = g.render(ev, rng, dups=True)
                has_dups = True
            elif style < 0.7:
                # (no surrounding whitespace: it is not part of the JSON value that Raw holds)
                text = json.dumps(ev, indent=rng.choice([None, 1, 4]))
            else:
                text = fmt(ev)
            fields = list(ev.keys()) + ["missing", "", "Type", "content.body"]
            raw_cmds.append({"op": "raw_ops", "text": text, "fields": fields})
            raw_meta.append((ev, has_dups))
        for cmd, (ev, has_dups), r in zip(raw_cmds, raw_meta, w.call_many(raw_cmds)):
            rep.count("raw_texts")
            rep.judged()
            if handle_crash(rep, r, cmd, context="raw"):
                continue
            res = r["ok"]
            text = cmd["text"]
            key = "raw:" + text[:50]
            if "from_json_string_err" in res:
                rep.violation("raw_rejects_valid_json", key, {"text": text[:1500], "error": res["from_json_string_err"]}, cmd)
                continue
            problems = []
            for k in ("json", "cast_json", "clone_json", "into_json"):
                if res[k] != text:
                    problems.append("%s is not the original text byte-for-byte" % k)
            if "ok" not in res["deserialize"] or res["deserialize"]["ok"] != ev:
                problems.append("deserialize() differs from a full parse")
            for f, got in res["fields"].items():
                if f in ev:
                    want = ev[f]
                    if "ok" not in got["raw"] or json.loads(got["raw"]["ok"]) != want:
                        problems.append("get_field(%r) = %r, full parse has %r" % (f, got["raw"], want))
                    if has_dups:
                        # an earlier duplicate of the key may carry a junk value of another type:
                        # what a *typed* accessor does then is not specified; only the untyped
                        # accessor is judged on texts with duplicate keys
                        continue
                    if isinstance(want, str):
                        if got["as_string"].get("ok") != want:
                            problems.append("get_field::<String>(%r) = %r" % (f, got["as_string"]))
                    elif "err" not in got["as_string"]:
                        problems.append("get_field::<String>(%r) accepted a non-string" % f)
                    if isinstance(want, int) and not isinstance(want, bool):
                        if got["as_i64"].get("ok") != want:
                            problems.append("get_field::<i64>(%r) = %r" % (f, got["as_i64"]))
                else:
                    if not got["raw"].get("none"):
                        problems.append("get_field(%r) on absent field = %r" % (f, got["raw"]))
            if problems:
                rep.violation("raw_wrapper_disagrees_with_parse", key, {"problems": problems[:5], "text": text[:1500]}, cmd)
        if layer == "rel" and ctx.shard == 0:
            for cmd in de_cmds[:400:100]:
                rep.sample({"event_de": cmd["enum"], "text": cmd["text"][:350]})
            rep.sample({"content_roundtrip": rt_cmds[0]})


def post(rep, tier, seed):
    """thorough: Raw::cast_ref (a transmute) / clone / get_field and typed deserialization on a
    recorded sample, interpreted by Miri."""
    if tier != "thorough":
        return {"miri": "thorough tier only"}
    import random
    from .. import miri
    rng = random.Random(seed)
    cmds = []
    for _ in range(160):
        kind = rng.choice(["state", "message"])
        etype, content, state_key, redacts = gen_room_event(rng, kind)
        ev = ge.envelope(rng, etype, content, "sync", state_key=state_key, redacts=redacts)
        text = g.render(ev, rng, dups=True) if rng.random() < 0.5 else fmt(ev)
        cmds.append({"op": "raw_ops", "text": text, "fields": list(ev.keys())[:4] + ["missing"]})
        if rng.random() < 0.3:
            cmds.append({"op": "event_de", "enum": "AnySyncTimelineEvent", "text": fmt(ev)})
    return {"miri": miri.layer(rep, cmds, seed=seed)}
