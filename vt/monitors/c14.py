"""C14 — sanitized HTML has only allow-listed elements, attributes, schemes and classes."""
import json

from ..gen import htmlgen as hg
from ..ref import html_model as ref
from ..report import h64
from ..worker import handle_crash

PROPERTY = "C14"
RULE = ("documents: the exhaustive attribute family (every subset <=3 and order of 7-10 candidate "
        "attributes for a, img, span, code, ol, div, font; every scheme spelling / class value alone "
        "and next to attributes that sort before and after it), random grammar documents over "
        "allowed, deprecated, forbidden, foreign and custom elements with comments / doctype / "
        "CDATA / PIs, syntactically injured variants, nesting chains of 90-400 levels, mx-reply at "
        "any depth; configurations: strict, compat, each with and without reply-fallback removal, "
        "and random builder configurations (mode x Add/Override lists for elements, attributes, "
        "schemes, classes, replacements x remove/ignore/deny lists x max_depth). Each output is "
        "judged three ways: an independent tokenizer (Python html.parser) over the output string, "
        "the re-parsed output tree and the sanitized tree, against the configuration's effective "
        "allow-lists; plus order preservation of text and allowed elements. evaluations = "
        "(document, configuration, view) judgements; distinct_nontrivial = distinct (document, "
        "configuration) pairs whose output differs from a plain parse-and-reserialize of the input")
ASSUMPTIONS = ["allow-lists transcribed from the spec's m.room.message formatted_body section and "
               "the builder semantics documented on SanitizerConfig (vt/ref/html_model.py)",
               "URI schemes are judged after browser-style normalisation (strip leading C0/space, "
               "drop tab/CR/LF, lower-case); deny-lists of the builder are judged with the documented "
               "literal prefix semantics"]

BASE_CONFIGS = [{"mode": "strict"}, {"mode": "compat"},
                {"mode": "strict", "remove_reply_fallback": True},
                {"mode": "compat", "remove_reply_fallback": True}]
RAW_TEXT_ELEMENTS = {"script", "style", "xmp", "iframe", "noembed", "noframes", "noscript", "plaintext",
                     "textarea", "title", "listing"}
EL_POOL = hg.ALLOWED + hg.DEPRECATED + hg.FORBIDDEN[:12] + hg.CUSTOM[:3]


def layers(tier):
    return ["rel", "dbg", "asan"] if tier == "thorough" else ["rel"]


def floors(tier):
    return {"documents": 8000, "attribute_family": 2500, "deep_chains": 40, "builder_configs": 500,
            "order_checked": 4000, "changed_by_sanitizer": 4000, "_distinct_nontrivial": 4000}


def rand_config(rng):
    c = {}
    mode = rng.choice([None, "strict", "strict", "compat"])
    if mode:
        c["mode"] = mode
    if rng.random() < 0.3:
        c["remove_reply_fallback"] = True
    beh = lambda: rng.choice(["add", "override"])
    if rng.random() < 0.5:
        c["allow_elements"] = {"list": rng.sample(EL_POOL, rng.randint(0, 6)), "behavior": beh()}
    if rng.random() < 0.3:
        c["remove_elements"] = rng.sample(EL_POOL, rng.randint(1, 3))
    if rng.random() < 0.3:
        c["ignore_elements"] = rng.sample(EL_POOL, rng.randint(1, 3))
    if rng.random() < 0.4:
        c["allow_attrs"] = {"list": {rng.choice(["a", "img", "span", "p", "div", "code"]):
                                     rng.sample(["href", "src", "class", "style", "id", "title", "onclick", "data-x"],
                                                rng.randint(0, 3)) for _ in range(rng.randint(1, 2))},
                            "behavior": beh()}
    if rng.random() < 0.3:
        c["remove_attrs"] = {rng.choice(["a", "img", "span", "code"]): rng.sample(["href", "target", "alt", "class", "title"], 2)}
    if rng.random() < 0.4:
        c["allow_schemes"] = {"list": {rng.choice(["a", "img"]): {rng.choice(["href", "src"]):
                                                                 rng.sample(["https", "data", "mxc", "matrix", "tel"], 2)}},
                              "behavior": beh()}
    if rng.random() < 0.3:
        c["deny_schemes"] = {"a": {"href": ["javascript", "data"]}}
    if rng.random() < 0.3:
        c["allow_classes"] = {"list": {rng.choice(["code", "span", "div"]): rng.sample(["c", "language-*", "foo", "x*"], 2)},
                              "behavior": beh()}
    if rng.random() < 0.2:
        c["remove_classes"] = {"code": ["language-x", "f*"]}
    if rng.random() < 0.3:
        c["replace_elements"] = {"list": {rng.choice(["b", "center", "big", "font"]): rng.choice(["strong", "div", "span", "script"])},
                                 "behavior": beh()}
    if rng.random() < 0.2:
        c["replace_attrs"] = {"list": {"font": {"face": "data-mx-face"}, "span": {"color": "data-mx-color"}},
                              "behavior": beh()}
    if rng.random() < 0.25:
        c["max_depth"] = rng.choice([1, 2, 3, 5, 10, 50])
    if rng.random() < 0.7:
        # the order of the builder calls (the model ignores it: every call sets its own setting)
        order = [k for k in c if k != "mode"]
        rng.shuffle(order)
        c["order"] = order
    return c


def in_depth(tree):
    return max([n[0] + 1 for n in tree if n[1] == "e"] or [0])


def judge(ctx, doc, config, reply, layer, tag):
    rep = ctx.rep
    cmd = {"op": "sanitize", "html": doc, "config": config}
    if handle_crash(rep, reply, cmd, context=tag):
        return
    if "ok" not in reply:
        raise RuntimeError("probe error %r" % (reply,))
    r = reply["ok"]
    eff = ref.Effective(config)
    ckey = json.dumps(config, sort_keys=True)
    key = "%s:%s" % ("mode-" + str(config.get("mode")) + ("+builder" if len(config) > 2 else ""), doc[:60])
    views = (("tokenizer", lambda: ref.check_tokens(eff, r["out"])),
             ("reparse", lambda: ref.check_tree(eff, r["out_tree"], "reparse")),
             ("sanitized-tree", lambda: ref.check_tree(eff, r["san_tree"], "sanitized-tree")))
    texts = {}
    for name, f in views:
        if name == "tokenizer" and (config.get("mode") is None or
                                    (eff.allowed_elements or set()) & RAW_TEXT_ELEMENTS):
            # without a mode, or with a builder list that allows them, raw-text elements (xmp,
            # iframe, noscript, ...) may legitimately be in the output; html.parser does not know them, so only the tree views are used
            texts[name] = None
            continue
        rep.judged()
        problems, maxd, text = f()
        texts[name] = text
        if problems:
            rep.violation("disallowed_content_in_output", key,
                          {"view": name, "problems": problems[:6], "input": doc[:1500],
                           "output": r["out"][:1500], "config": config, "layer": layer}, cmd)
    # reply fallback
    if config.get("remove_reply_fallback"):
        rep.judged()
        if any(n[1] == "e" and n[2] == "mx-reply" for n in r["san_tree"] + r["out_tree"]):
            rep.violation("reply_fallback_kept", key, {"input": doc[:1500], "output": r["out"][:1500]}, cmd)
    # order preservation (depth rule out of play)
    lim = eff.max_depth
    if lim is None or in_depth(r["in_tree"]) < lim:
        rep.judged()
        rep.count("order_checked")
        want_text, want_names = ref.expected_shape(eff, r["in_tree"])
        got_names = [n[2] for n in r["san_tree"] if n[1] == "e"]
        if texts["sanitized-tree"] != want_text:
            rep.violation("text_not_preserved_in_order", key,
                          {"input": doc[:1500], "output": r["out"][:1500], "want_text": want_text[:500],
                           "got_text": texts["sanitized-tree"][:500], "config": config}, cmd)
        elif got_names != want_names:
            rep.violation("allowed_elements_not_preserved_in_order", key,
                          {"input": doc[:1500], "output": r["out"][:1500], "want": want_names[:60],
                           "got": got_names[:60], "config": config}, cmd)
    if r["out"] != r["in_reser"]:
        rep.count("changed_by_sanitizer")
        rep.case(h64(doc, ckey))


def shard(ctx):
    rng = ctx.rng
    rep = ctx.rep
    work = []   # (doc, config, tag)
    fam = hg.exhaustive_attribute_family(3)
    for i, doc in enumerate(fam):
        if ctx.mine(i):
            for c in BASE_CONFIGS[:2]:
                work.append((doc, c, "attrfam"))
                rep.count("attribute_family")
    n = (60000 if ctx.tier == "quick" else 1500000) // ctx.nshards
    for i in range(n):
        doc = hg.rand_document(rng, rng.randint(1, 6))
        if rng.random() < 0.15:
            doc = "<mx-reply><blockquote>quoted <b>x</b></blockquote></mx-reply>" + doc
        if rng.random() < 0.7:
            c = rng.choice(BASE_CONFIGS)
        else:
            c = rand_config(rng)
            rep.count("builder_configs")
        work.append((doc, c, "random"))
    for i in range((64 if ctx.tier == "quick" else 640) // ctx.nshards + 1):
        depth = rng.choice([90, 98, 99, 100, 101, 102, 110, 150, 250, 400])
        doc = hg.deep_chain(rng, depth)
        work.append((doc, rng.choice(BASE_CONFIGS), "deep"))
        rep.count("deep_chains")
        if rng.random() < 0.5:
            work.append((hg.deep_chain(rng, rng.randint(1, 12)), {"mode": "strict", "max_depth": rng.randint(1, 6)}, "deep"))
    rep.count("documents", len(work))
    for layer in layers(ctx.tier):
        w = ctx.worker(layer)
        sub = work if layer != "asan" else work[::5]
        B = 500
        for i in range(0, len(sub), B):
            chunk = sub[i:i + B]
            replies = w.call_many([{"op": "sanitize", "html": d, "config": c} for d, c, _ in chunk])
            for (d, c, tag), r in zip(chunk, replies):
                judge(ctx, d, c, r, layer, tag)
            if i == 0 and ctx.shard == 0 and layer == "rel":
                for (d, c, tag), r in list(zip(chunk, replies))[::100]:
                    rep.sample({"input": d[:300], "config": c, "output": r.get("ok", {}).get("out", "")[:300]})
