"""C20 — power-level helper predicates agree with the authorization rules."""
import itertools
import json

from ..gen import authgen
from ..ref import auth as ref
from ..ref import redact as redact_ref
from ..report import h64
from ..worker import handle_crash

PROPERTY = "C20"
RULE = ("power-level contents: (ban, kick, invite) thresholds from 12 combinations of {absent, 0, "
        "30, 50}, actor level from {-1, 0, 1, 29, 30, 31, 49, 50, 51, 100} given through a users "
        "entry or through users_default, target level below / equal / above the actor, events "
        "overrides absent / for some message and state types / for every type asked about "
        "(incl. m.room.third_party_invite and m.room.member) within 1 of the actor's level, state_default / events_default "
        "present / absent, notifications.room, integer vs string / padded-string encodings "
        "(versions 3-9 only), x room versions 3-11. For each content the RoomPowerLevels helpers' "
        "answers are compared with ruma_state_res::auth_check on the corresponding minimal event "
        "(ban of a joined / left / invited target, kick of a joined / invited target, unban of a "
        "banned target, invite of a left / unknown target, message and state events of 4+4 types, "
        "an unchanged power_levels event) in a room whose state is {create, that power-levels "
        "event, actor joined, target with the applicable membership}; the reference rules give a "
        "third opinion; notifications against the sender_notification_permission push condition. "
        "evaluations = helper answers compared; distinct_nontrivial = distinct (content, action) "
        "cells where actor or target level is within 1 of the deciding threshold")
ASSUMPTIONS = ["event types with their own authorization rule are compared only where the helper's "
               "question and the rule coincide (an unchanged m.room.power_levels event; not "
               "m.room.member / m.room.create; m.room.third_party_invite is compared and reported "
               "separately)"]

ACTOR, TARGET, CREATOR = authgen.ALICE, authgen.BOB, authgen.CREATOR
MSG_TYPES = ["m.room.message", "m.reaction", "org.custom.msg", "m.room.redaction"]
STATE_TYPES = ["m.room.name", "m.room.topic", "org.custom.state", "m.room.power_levels"]
THRESHOLDS = [(None, None, None), (50, 50, 0), (30, 30, 30), (0, 0, 0), (50, 30, None), (30, 50, 50), (None, 30, 30),
              (30, None, 0), (0, 50, 50), (50, 0, 30), (100, 100, 100), (49, 51, 1)]
LEVELS = [-1, 0, 1, 29, 30, 31, 49, 50, 51, 100]


def layers(tier):
    return ["rel"]


def floors(tier):
    return {"contents": 8000, "comparisons": 150000, "helper_yes": 20000, "helper_no": 20000, "rooms_created_by_actor_or_target": 1000, "redacted_power_levels": 800,
            "_distinct_nontrivial": 20000}


def contents(tier):
    cell = 0
    for (ban, kick, invite) in THRESHOLDS:
        for a in LEVELS:
            for trel in (-1, 0, 1):
                for via_default in (False, True):
                    for overrides in (False, True, "all"):
                        for encoding in ("int", "str", "pad"):
                            cell += 1
                            c = {}
                            for k, val in (("ban", ban), ("kick", kick), ("invite", invite)):
                                if val is not None:
                                    c[k] = val
                            c["users"] = {CREATOR: 100, TARGET: a + trel}
                            if via_default:
                                c["users_default"] = a
                            else:
                                c["users"][ACTOR] = a
                            if overrides:
                                c["events"] = {"m.room.message": 30, "m.room.name": 50, "org.custom.state": 0, "m.room.redaction": 49,
                                               "m.room.power_levels": 50}
                                c["state_default"] = 31
                                c["events_default"] = 1
                                c["notifications"] = {"room": 30}
                                c["redact"] = 30
                            if overrides == "all":
                                # an explicit events entry for every type asked about (also the types
                                # with a rule of their own), just below / at / above the actor's level
                                types = MSG_TYPES + STATE_TYPES + ["m.room.third_party_invite", "m.room.member"]
                                c["events"] = {ty: a + (-1, 0, 1)[(i + cell) % 3] for i, ty in enumerate(types)}
                                if cell % 2:
                                    c["state_default"] = a + 1
                                    c["events_default"] = a + 1
                                # (independent of the offset of the m.room.message entry: notifying and
                                # sending are separate permissions)
                                c["notifications"] = {"room": a + (-1, 0, 1)[(cell // 9) % 3]}
                            yield c, encoding


def encode_levels(c, how):
    if how == "int":
        return c
    f = (lambda n: str(n)) if how == "str" else (lambda n: " +%d " % n if n >= 0 else " %d " % n)
    out = {}
    for k, v in c.items():
        if isinstance(v, dict):
            out[k] = {kk: (f(vv) if not isinstance(vv, dict) else vv) for kk, vv in v.items()}
            if k == "notifications":
                out[k] = v       # notifications are plain integers in every version
        else:
            out[k] = f(v)
    return out


def build_cases(version, c, creator=CREATOR):
    """[(action, helper key path, auth triple)]; creator: who created the room (the helpers do not
    know; with a power-levels event in the state the creator has no implicit level)"""
    out = []

    def room(target_membership):
        b = authgen.Builder(version)
        b.create(sender=creator)
        b.member(CREATOR, "join")
        b.member(ACTOR, "join")
        if target_membership is not None:
            b.member(TARGET, target_membership, sender=CREATOR if target_membership in ("ban", "invite") else TARGET)
        b.power_levels(c)
        return b
    for tm in ("join", "leave", "invite"):
        b = room(tm)
        out.append(("ban:" + tm, ("can_ban_user", "do_ban"), b.triple(b.event("m.room.member", ACTOR, {"membership": "ban"}, state_key=TARGET), "ban")))
    for tm in ("join", "invite"):
        b = room(tm)
        out.append(("kick:" + tm, ("can_kick_user", "do_kick"), b.triple(b.event("m.room.member", ACTOR, {"membership": "leave"}, state_key=TARGET), "kick")))
    b = room("ban")
    out.append(("unban", ("can_unban_user", "do_unban"), b.triple(b.event("m.room.member", ACTOR, {"membership": "leave"}, state_key=TARGET), "unban")))
    for tm in ("leave", None):
        b = room(tm)
        out.append(("invite:%s" % tm, ("can_invite", "do_invite"), b.triple(b.event("m.room.member", ACTOR, {"membership": "invite"}, state_key=TARGET), "invite")))
    b = room("join")
    for t in MSG_TYPES:
        ev = b.event(t, ACTOR, {"body": "x"}, redacts=("$t:hs1.org" if t == "m.room.redaction" else None))
        out.append(("message:" + t, ("message", t), b.triple(ev, "message")))
    for t in STATE_TYPES:
        content = c if t == "m.room.power_levels" else {"name": "n"}
        out.append(("state:" + t, ("state", t), b.triple(b.event(t, ACTOR, content, state_key=""), "state")))
    out.append(("state:m.room.third_party_invite", ("state", "m.room.third_party_invite"),
                b.triple(b.event("m.room.third_party_invite", ACTOR, {"display_name": "x"}, state_key="tok"), "tpi-state")))
    return out


def shard(ctx):
    rep = ctx.rep
    w = ctx.worker("rel")
    k = 0
    for version in range(3, 12):
        helper_cmds, metas, auth_items = [], [], []
        for c, how in contents(ctx.tier):
            if how != "int" and version >= 10:
                continue
            k += 1
            if not ctx.mine(k):
                continue
            if ctx.tier == "quick" and (k // ctx.nshards) % 3:
                continue
            ce = encode_levels(c, how)
            # rooms created by the actor / the target when they have no users entry of their own
            creator = CREATOR
            if ACTOR not in c["users"] and k % 3 == 0:
                creator = ACTOR
            elif ACTOR not in c["users"] and k % 3 == 1 and c["users"].get(TARGET) == c.get("users_default"):
                c = dict(c, users={u: l for u, l in c["users"].items() if u != TARGET})
                ce = encode_levels(c, how)
                creator = TARGET
            if creator != CREATOR:
                rep.count("rooms_created_by_actor_or_target")
            cases = build_cases(version, ce, creator)
            helper_cmds.append({"op": "power_helpers", "content": json.dumps(ce), "actor": ACTOR, "target": TARGET,
                                "message_types": MSG_TYPES, "state_types": STATE_TYPES + ["m.room.third_party_invite"]})
            metas.append((c, ce, how, cases, len(auth_items)))
            for _, _, t in cases:
                auth_items.append({"version": str(version), "event": t["event"], "state": t["state"]})
            if how == "int" and k % 4 == 0:
                # the same room after its power-levels event was redacted: helpers built from the redacted
                # content type against the authorization rules over the redacted event
                reds = [x for x in redact_ref.redact_content(c, "m.room.power_levels", version) if not isinstance(x, redact_ref.RedactError)]
                if reds:
                    rc = reds[0]
                    rcases = build_cases(version, rc, creator)
                    helper_cmds.append({"op": "power_helpers", "content": json.dumps(rc), "redacted": True, "actor": ACTOR, "target": TARGET,
                                        "message_types": MSG_TYPES, "state_types": STATE_TYPES + ["m.room.third_party_invite"]})
                    metas.append((rc, rc, "redacted", rcases, len(auth_items)))
                    for _, _, t in rcases:
                        auth_items.append({"version": str(version), "event": t["event"], "state": t["state"]})
                    rep.count("redacted_power_levels")
            if len(helper_cmds) >= 60:
                run_batch(ctx, w, version, helper_cmds, metas, auth_items)
                helper_cmds, metas, auth_items = [], [], []
        run_batch(ctx, w, version, helper_cmds, metas, auth_items)
    if ctx.shard == 0:
        c, how = next(contents("quick"))
        rep.sample({"content": c, "actions": [a for a, _, _ in build_cases(6, c)]})


def run_batch(ctx, w, version, helper_cmds, metas, auth_items):
    rep = ctx.rep
    if not helper_cmds:
        return
    hr = w.call_many(helper_cmds)
    cmd = {"op": "auth_check_batch", "items": auth_items}
    ar = w.call(cmd, per_op_timeout=120)
    if handle_crash(rep, ar, cmd, context="auth"):
        return
    auth_results = ar["ok"]
    for hcmd, (c, ce, how, cases, off), h in zip(helper_cmds, metas, hr):
        rep.count("contents")
        if handle_crash(rep, h, hcmd, context="helpers"):
            continue
        helpers = h["ok"]
        if "content_err" in helpers:
            rep.violation("helper_rejects_power_levels", "v%d:%s" % (version, how), {"content": ce, "error": helpers["content_err"]}, hcmd)
            continue
        a = c["users"].get(ACTOR, c.get("users_default", 0))
        # effective level and notification predicate
        rep.judged()
        if helpers["for_user_actor"] != a or helpers["for_user_target"] != c["users"].get(TARGET, c.get("users_default", 0)):
            rep.violation("effective_level_differs", "v%d" % version, {"content": ce, "helpers": helpers}, hcmd)
        rep.judged()
        if helpers["can_notify_room"] != helpers["push_condition_room"]:
            rep.violation("notification_helper_disagrees_with_push_condition", "v%d" % version,
                          {"content": ce, "helper": helpers["can_notify_room"], "condition": helpers["push_condition_room"]}, hcmd)
        if helpers["can_ban_user"] and not helpers["can_ban"] or helpers["can_kick_user"] and not helpers["can_kick"] or \
                helpers["can_unban_user"] and not helpers["can_unban"]:
            rep.violation("helper_family_inconsistent", "v%d" % version, {"content": ce, "helpers": helpers}, hcmd)
        for i, (action, path, t) in enumerate(cases):
            res = auth_results[off + i]
            auth_ok = "ok" in res["result"]
            if path[0] in ("message", "state"):
                ans = [helpers[path[0]][path[1]]["can"], helpers[path[0]][path[1]]["do"]]
            else:
                ans = [helpers[path[0]], helpers[path[1]]]
            model_ok, rule = ref.auth_check(version, t["event"], {(e["type"], e["state_key"]): e for e in t["state"]})
            rep.count("comparisons")
            rep.judged()
            rep.count("helper_yes" if ans[0] else "helper_no")
            thr = [v for v in (c.get("ban", 50), c.get("kick", 50), c.get("invite", 0)) if abs(v - a) <= 1]
            rep.case(h64(str(version), json.dumps(ce, sort_keys=True), action), bool(thr))
            key = "v%d:%s" % (version, action.split(":")[0] + (":" + action.split(":")[1] if action.startswith(("state", "message")) else ""))
            if ans[0] != ans[1]:
                rep.violation("helper_variants_disagree", key, {"content": ce, "action": action, "answers": ans}, hcmd)
            elif ans[0] != auth_ok:
                kind = "helper_disagrees_with_authorization"
                rep.violation(kind, key,
                              {"version": version, "action": action, "helper_says": ans[0], "auth_check": res["result"],
                               "reference_rules": {"allowed": model_ok, "rule": rule}, "content": ce,
                               "actor_level": a, "target_level": c["users"].get(TARGET, c.get("users_default", 0)),
                               "room_creator": t["state"][0]["sender"]},
                              {"ops": [hcmd, {"op": "auth_check", "version": str(version), "event": t["event"], "state": t["state"]}]})
