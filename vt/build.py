"""Builds the probe worker from /repo's *current working tree* (path dependencies), offline.

Layers:
  rel   release profile (opt-level 2): the build whose answers decide behavioural verdicts
  dbg   opt-level 1 + debug-assertions + overflow-checks
  unst  release with all unstable (MSC) features of ruma-events / ruma-common (C17 only)
  asan  nightly, -Zsanitizer=address
  miri  handled by vt/miri.py (cargo +nightly miri run)
"""
import fcntl
import os
import shutil
import subprocess
import sys
import time

VERIF = os.path.dirname(os.path.dirname(os.path.abspath(__file__)))
PROBE = os.path.join(VERIF, "probe")
REPO = os.environ.get("VERIF_REPO", "/repo")
TARGET = os.path.join(PROBE, "target")

_built = {}


class BuildError(Exception):
    pass


def _env():
    env = dict(os.environ)
    env["CARGO_NET_OFFLINE"] = "true"
    env.setdefault("CARGO_TERM_COLOR", "never")
    # cfg guard for source hooks (none are needed so far; kept so that hooked code, if any, is on)
    return env


def _sync_lock():
    src = os.path.join(REPO, "Cargo.lock")
    dst = os.path.join(PROBE, "Cargo.lock")
    if not os.path.exists(dst):
        shutil.copyfile(src, dst)


def binary_path(layer, bin="probe"):
    if layer == "rel":
        return os.path.join(TARGET, "release", bin)
    if layer == "dbg":
        return os.path.join(TARGET, "dbg", bin)
    if layer == "unst":
        return os.path.join(TARGET, "unst", "release", bin)
    if layer == "asan":
        return os.path.join(TARGET, "asan", "x86_64-unknown-linux-gnu", "release", bin)
    raise BuildError("unknown layer " + layer)


def _cmd(layer, bin="probe"):
    sel = ["--bin", bin] + (["--features", "api"] if bin == "probe-api" else [])
    if layer == "rel":
        return ["cargo", "build", "--release", "--offline"] + sel, {}
    if layer == "dbg":
        return ["cargo", "build", "--profile", "dbg", "--offline"] + sel, {}
    if layer == "unst":
        # release build with every unstable (MSC) feature of ruma-events / ruma-common switched on
        return ["cargo", "build", "--release", "--offline", "--features", "unstable",
                "--target-dir", os.path.join(TARGET, "unst")] + sel, {}
    if layer == "asan":
        return (["cargo", "+nightly", "build", "--release", "--offline",
                 "--target", "x86_64-unknown-linux-gnu",
                 "--target-dir", os.path.join(TARGET, "asan")] + sel,
                {"RUSTFLAGS": "-Zsanitizer=address -Cforce-frame-pointers=yes"})
    raise BuildError("unknown layer " + layer)


def ensure(layer, quiet=True, bin="probe"):
    """(Re)build the layer from the current /repo tree; incremental. Returns the binary path.
    A layer name may carry the binary: "rel:api" = the probe-api binary of the rel layer."""
    if ":" in layer:
        layer, which = layer.split(":", 1)
        bin = "probe-api" if which == "api" else which
    key = (layer, bin)
    if key in _built:
        return _built[key]
    os.makedirs(TARGET, exist_ok=True)
    lock_path = os.path.join(TARGET, ".verif-build.lock")
    with open(lock_path, "w") as lf:
        fcntl.flock(lf, fcntl.LOCK_EX)
        try:
            _sync_lock()
            cmd, extra = _cmd(layer, bin)
            env = _env()
            env.update(extra)
            t0 = time.time()
            p = subprocess.run(cmd, cwd=PROBE, env=env, stdout=subprocess.PIPE,
                               stderr=subprocess.STDOUT)
            out = p.stdout.decode("utf-8", "replace")
            if p.returncode != 0:
                sys.stderr.write(out[-6000:])
                raise BuildError("build of layer %s failed (exit %d)" % (layer, p.returncode))
            if not quiet:
                sys.stderr.write("[build] layer %s (%s) ok in %.1fs\n" % (layer, bin, time.time() - t0))
        finally:
            fcntl.flock(lf, fcntl.LOCK_UN)
    path = binary_path(layer, bin)
    if not os.path.exists(path):
        raise BuildError("binary missing after build: " + path)
    _built[key] = path
    return path


def binary(layer):
    """Path of an already built layer (builds on first use in this process)."""
    return ensure(layer)
