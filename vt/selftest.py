"""Self-tests of the reference models (spec examples / RFC vectors) and of the supervisor."""
import importlib
import sys

MODELS = ["vt.ref.canonjson", "vt.ref.redact", "vt.ref.ed25519", "vt.ref.event_sig", "vt.ref.ids", "vt.ref.ruleset_model", "vt.ref.glob", "vt.ref.pushrules", "vt.ref.html_model", "vt.ref.endpoint", "vt.ref.auth", "vt.ref.stateres"]


def main():
    for m in MODELS:
        mod = importlib.import_module(m)
        mod.selftest()
        sys.stderr.write("[selftest] %s ok\n" % m)
    from .worker import Worker
    with Worker("rel") as w:
        r = w.call_many([{"op": "ping"}, {"op": "selftest_panic"}, {"op": "ping"},
                         {"op": "selftest_abort"}, {"op": "ping"}])
        assert r[0].get("ok") == "pong" and "panic" in r[1] and r[2].get("ok") == "pong", r
        assert "died" in r[3] and r[4].get("ok") == "pong", r
    sys.stderr.write("[selftest] supervisor ok (panic caught, abort observed, worker restarted)\n")


if __name__ == "__main__":
    main()
