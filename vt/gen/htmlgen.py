"""HTML document generators for the sanitizer monitors (C14/C15): a grammar over allowed,
deprecated, forbidden, foreign and custom elements, attribute sets/orders, URI scheme spellings,
malformed markup, deep nesting; and a clean-document generator from the allow-list grammar."""
import itertools

ALLOWED = ["del", "h1", "h2", "h3", "h4", "h5", "h6", "blockquote", "p", "a", "ul", "ol", "sup", "sub",
           "li", "b", "i", "u", "strong", "em", "s", "code", "hr", "br", "div", "table", "thead",
           "tbody", "tr", "th", "td", "caption", "pre", "span", "img", "details", "summary"]
DEPRECATED = ["font", "strike"]
FORBIDDEN = ["script", "style", "iframe", "svg", "math", "form", "input", "object", "embed", "link",
             "meta", "base", "title", "textarea", "select", "option", "template", "noscript", "video",
             "audio", "source", "button", "marquee", "body", "html", "head", "center", "big", "tt",
             "nav", "section", "article", "label", "frameset", "xmp", "listing"]
FOREIGN_CHILDREN = ["circle", "path", "mi", "mtext", "foreignObject", "desc", "annotation-xml", "g"]
CUSTOM = ["x-foo", "mx-reply", "blink", "foo:bar", "spán", "o"]
INLINE = ["b", "i", "u", "strong", "em", "s", "del", "code", "span", "sup", "sub", "a"]
VOID = {"hr", "br", "img", "input", "link", "meta", "base", "embed", "source"}

SCHEME_VALUES = ["https://example.org/x", "http://a/b?c=d&e", "ftp://f", "mailto:a@b", "magnet:?xt=1",
                 "matrix:u/a:b", "mxc://server/media", "javascript:alert(1)", "JAVASCRIPT:alert(1)",
                 "magnet:?tr=udp://t:1", "mailto:a@b?x=https://y", "javascript://x%0aalert(1)", "data:x,https://y", "x-custom://https://y",
                 "JaVaScRiPt:alert(1)", " javascript:alert(1)", "\tjavascript:alert(1)",
                 "java\tscript:alert(1)", "java\nscript:alert(1)", "\x01javascript:alert(1)",
                 "data:text/html;base64,PHNjcmlwdD4=", "DATA:text/html,x", "vbscript:x", "file:///etc/passwd",
                 "//protocol.relative/x", "/absolute/path", "relative", "#frag", "", "https:", "HTTPS://UP",
                 "https:javascript:alert(1)", "javascript&colon;alert(1)", "&#106;avascript:alert(1)",
                 "http&colon;//x", "mxc:", "MXC://a/b", "blob:x", "about:blank", "tel:123", "x:y"]
CLASS_VALUES = ["language-rust", "language-", "language-c++ language-x", "foo", "language-rust foo",
                "foo language-rust", "LANGUAGE-rust", " language-a  language-b ", "", "lang-rust",
                "xlanguage-rust", "language-rust\tevil"]

ATTR_CANDIDATES = {
    "a": [("href", SCHEME_VALUES), ("target", ["_blank"]), ("onclick", ["alert(1)"]),
          ("style", ["color:red"]), ("data-x", ["1"]), ("class", ["c"]), ("aria-label", ["l"]),
          ("rel", ["noopener"]), ("name", ["n"]), ("title", ["t"])],
    "img": [("src", SCHEME_VALUES), ("alt", ["a"]), ("title", ["t"]), ("width", ["1"]), ("height", ["2"]),
            ("onerror", ["alert(1)"]), ("srcset", ["x 1x"]), ("style", ["x"]), ("class", ["c"]),
            ("data-mx-emoticon", [""])],
    "span": [("data-mx-color", ["#ff0000"]), ("data-mx-bg-color", ["#00ff00"]), ("data-mx-spoiler", ["r"]),
             ("data-mx-maths", ["x^2"]), ("style", ["x"]), ("class", ["c"]), ("onclick", ["x"]),
             ("href", ["javascript:x"]), ("color", ["red"])],
    "code": [("class", CLASS_VALUES), ("style", ["x"]), ("data-x", ["1"]), ("id", ["i"])],
    "ol": [("start", ["3"]), ("type", ["a"]), ("reversed", [""]), ("class", ["c"])],
    "div": [("data-mx-maths", ["x"]), ("class", ["c"]), ("style", ["x"]), ("id", ["i"]), ("align", ["center"])],
    "font": [("color", ["red"]), ("data-mx-color", ["blue"]), ("data-mx-bg-color", ["#fff"]),
             ("face", ["f"]), ("size", ["3"]), ("style", ["x"]), ("class", ["c"])],
}
GENERIC_ATTRS = [("id", ["i"]), ("class", ["c", "language-x"]), ("style", ["x:y"]), ("onclick", ["x"]),
                 ("onmouseover", ["x"]), ("data-mx-color", ["red"]), ("href", ["javascript:x", "https://x"]),
                 ("src", ["mxc://a/b", "http://x"]), ("title", ["t"]), ("lang", ["en"]), ("dir", ["rtl"]),
                 ("xmlns", ["http://www.w3.org/2000/svg"]),
                 # attributes that the parser puts into a namespace inside <svg> / <math>
                 ("xlink:href", ["javascript:x", "https://x", "mxc://a/b"]), ("xml:lang", ["en"]), ("xlink:title", ["t"]),
                 ("xmlns:xlink", ["http://www.w3.org/1999/xlink"]), ("xml:space", ["preserve"])]
TEXTS = ["text", "hello world", "a &amp; b", "&lt;script&gt;", "1 < 2", "x > y", "a & b", "\"q\"", "'",
         "é", "\U0001f600", " ", "\n", "multi\nline", "&nbsp;", "&#x41;", "&#0;", "&bogus;", "]]>", "--"]


def attr_text(name, value, rng=None):
    q = '"' if rng is None else rng.choice(['"', '"', "'", ""])
    if q == "" and (value == "" or any(c in value for c in " \t\n\"'=<>`")):
        q = '"'
    v = value.replace("&", "&amp;") if rng is None or rng.random() < 0.7 else value
    if q == '"':
        v = v.replace('"', "&quot;")
    elif q == "'":
        v = v.replace("'", "&#39;")
    return "%s=%s%s%s" % (name, q, v, q)


def element(name, attrs, inner, rng=None):
    a = "".join(" " + attr_text(n, v, rng) for n, v in attrs)
    if name in VOID:
        return "<%s%s>" % (name, a)
    return "<%s%s>%s</%s>" % (name, a, inner, name)


def exhaustive_attribute_family(max_attrs=3):
    """every subset (<= max_attrs) and order of candidate attributes for the elements whose
    attributes carry rules; values rotate through the candidates' value lists"""
    docs = []
    for el, cands in ATTR_CANDIDATES.items():
        counter = 0
        for n in range(1, max_attrs + 1):
            for combo in itertools.permutations(range(len(cands)), n):
                attrs = []
                for idx in combo:
                    name, values = cands[idx]
                    counter += 1
                    attrs.append((name, values[counter % len(values)]))
                docs.append(element(el, attrs, "" if el in VOID else "t"))
        # every scheme / class value alone and together with an attribute that sorts before it
        for name, values in cands:
            if len(values) > 3:
                for v in values:
                    docs.append(element(el, [(name, v)], "t"))
                    docs.append(element(el, [("aaa", "1"), (name, v)], "t"))
                    docs.append(element(el, [(name, v), ("zzz", "1")], "t"))
                    docs.append(element(el, [("alt", "a"), ("data-x", "1"), (name, v), ("title", "t")], "t"))
    docs.extend(foreign_content_family())
    return docs


def foreign_content_family():
    """allowed element names that stay inside <svg> / <math> (no parser 'breakout') carrying the
    attributes that the parser moves into the xlink / xml / xmlns namespaces there, alone and next
    to an allowed plain attribute"""
    docs = []
    stay = ["a", "del", "details", "summary", "caption", "thead", "tbody", "tr", "th", "td", "mx-reply"]
    ns_attrs = [("xlink:href", v) for v in ("https://x.org/", "javascript:x", "mxc://a/b", "")] + \
               [("xml:lang", "en"), ("xlink:title", "t"), ("xml:space", "preserve"), ("xmlns:xlink", "http://www.w3.org/1999/xlink"),
                ("xlink:show", "new"), ("xml:base", "https://x.org/")]
    for root in ("svg", "math", "svg><g", "math><mi"):
        close = "".join("</%s>" % r for r in reversed(root.split("><")))
        for el in stay:
            for na in ns_attrs:
                docs.append("<%s>%s%s" % (root, element(el, [na], "t"), close))
                docs.append("<%s>%s%s" % (root, element(el, [("href", "https://y.org/"), na, ("title", "t")], "t"), close))
    return docs


def rand_attrs(rng, el):
    cands = ATTR_CANDIDATES.get(el, []) + GENERIC_ATTRS
    n = rng.choice([0, 0, 1, 1, 2, 3, 4])
    out = []
    for _ in range(n):
        name, values = rng.choice(cands)
        out.append((name, rng.choice(values)))
    return out


def rand_node(rng, depth):
    r = rng.random()
    if depth <= 0 or r < 0.3:
        q = rng.random()
        if q < 0.75:
            return rng.choice(TEXTS)
        if q < 0.85:
            return rng.choice(["<!-- comment -->", "<!-->", "<!--x-->-->", "<!-- <b>in comment</b> -->",
                               "<!---->", "<!--[if IE]>x<![endif]-->"])
        if q < 0.9:
            return rng.choice(["<!DOCTYPE html>", "<![CDATA[cdata <b>x</b>]]>", "<?php echo 1 ?>", "<?xml?>"])
        return rng.choice(["<br>", "<hr>", "<br/>", "<img src=\"mxc://a/b\">"])
    pool = rng.random()
    if pool < 0.55:
        el = rng.choice(ALLOWED)
    elif pool < 0.65:
        el = rng.choice(DEPRECATED)
    elif pool < 0.85:
        el = rng.choice(FORBIDDEN)
    elif pool < 0.92:
        el = rng.choice(CUSTOM)
    else:
        el = rng.choice(FOREIGN_CHILDREN)
    inner = "".join(rand_node(rng, depth - 1) for _ in range(rng.randint(0, 3)))
    return element(el, rand_attrs(rng, el), inner, rng)


def malform(rng, doc):
    """a few syntactic injuries"""
    n = len(doc)
    if n < 4:
        return doc
    r = rng.random()
    i = rng.randint(0, n - 1)
    if r < 0.2:
        return doc[:i] + doc[i + rng.randint(1, 6):]
    if r < 0.4:
        return doc[:i] + rng.choice(["<", ">", "</", "<b", "</p>", "</div>", "<a href=\"", "<!--", "\"", "'",
                                     "<p", "</x>", "<li>", "<td>", "</table>", "<svg>", "</svg>", "\x00"]) + doc[i:]
    if r < 0.5:
        return doc[:i]
    if r < 0.6:
        return doc + rng.choice(["<b><i>", "</b></b>", "<a>", "<table><tr>", "<!--"])
    return doc


def rand_document(rng, depth=5):
    doc = "".join(rand_node(rng, depth) for _ in range(rng.randint(1, 4)))
    if rng.random() < 0.3:
        doc = malform(rng, doc)
    return doc


def deep_chain(rng, n, elements=None):
    elements = elements or ["div", "span", "b", "blockquote", "i", "font", "x-foo", "em"]
    els = [rng.choice(elements) for _ in range(n)]
    leaf = rng.choice(["leaf", "<br>", "<b>x</b>", ""])
    return "".join("<%s>" % e for e in els) + leaf + "".join("</%s>" % e for e in reversed(els))


# --- clean documents (C15 preservation) -------------------------------------------------------
CLEAN_TEXT = ["text", "hello world", "a &amp; b", "&lt;tag&gt;", "é", "\U0001f600", "1 &lt; 2", "x"]
GOOD_HREF = ["https://example.org/x?y=1", "http://a", "ftp://f", "mailto:a@b.c", "magnet:?xt=1",
             # allowed schemes written without '//' whose remainder contains another URI, colons, slashes
             "magnet:?xt=urn:btih:abc&amp;tr=udp://tracker.example.org:6969", "mailto:a@b.c?subject=https://x.org/y",
             "mailto:a@b.c?body=javascript:x", "https://example.org/?next=javascript:alert(1)", "ftp://user:pw@f:21/x",
             "https://example.org/#frag:ment", "mailto:x", "http://[::1]:8080/"]
# (upper-case spellings of allowed schemes are deliberately not "clean": the sanitizer compares scheme
# names literally and unwraps such links, which removes more than necessary but nothing it must keep)


def clean_inline(rng, depth, mode):
    if depth <= 0 or rng.random() < 0.4:
        return rng.choice(CLEAN_TEXT)
    el = rng.choice(["b", "i", "u", "strong", "em", "s", "del", "code", "span", "sup", "sub", "a", "br", "img"])
    attrs = []
    if el == "a":
        href = rng.choice(GOOD_HREF + (["matrix:u/a:b.c", "matrix:r/room:hs.org?via=hs.org&amp;src=https://hs.org"] if mode == "compat" else []))
        attrs = [("href", href)] + ([("target", "_blank")] if rng.random() < 0.3 else [])
    elif el == "img":
        attrs = [("src", "mxc://srv/id%d" % rng.randint(0, 9))]
        for n in ("alt", "title", "width", "height"):
            if rng.random() < 0.4:
                attrs.append((n, "v1"))
    elif el == "span":
        for n in ("data-mx-color", "data-mx-bg-color", "data-mx-spoiler", "data-mx-maths"):
            if rng.random() < 0.3:
                attrs.append((n, "#aabbcc"))
    elif el == "code" and rng.random() < 0.5:
        attrs = [("class", rng.choice(["language-rust", "language-c language-x", "language-"]))]
    if el == "a":
        inner = rng.choice(CLEAN_TEXT)          # no nested links / interactive content
    else:
        inner = "".join(clean_inline(rng, depth - 1, mode) for _ in range(rng.randint(1, 2)))
    attrs.sort()
    return element(el, attrs, inner)


def clean_block(rng, depth, mode):
    el = rng.choice(["p", "div", "h1", "h2", "h3", "h4", "h5", "h6", "blockquote", "ul", "ol", "pre", "table",
                     "details", "hr"])
    inl = lambda: "".join(clean_inline(rng, 2, mode) for _ in range(rng.randint(1, 3)))
    if el in ("p", "h1", "h2", "h3", "h4", "h5", "h6"):
        return element(el, [], inl())
    if el == "pre":
        return element(el, [], element("code", [("class", "language-py")], "x = 1"))
    if el == "div":
        attrs = [("data-mx-maths", "x")] if rng.random() < 0.3 else []
        inner = inl() if depth <= 0 or rng.random() < 0.5 else clean_block(rng, depth - 1, mode)
        return element(el, attrs, inner)
    if el == "blockquote":
        return element(el, [], clean_block(rng, depth - 1, mode) if depth > 0 else element("p", [], inl()))
    if el in ("ul", "ol"):
        attrs = [("start", "3")] if el == "ol" and rng.random() < 0.5 else []
        return element(el, attrs, "".join(element("li", [], inl()) for _ in range(rng.randint(1, 3))))
    if el == "table":
        row = lambda cell: element("tr", [], "".join(element(cell, [], rng.choice(CLEAN_TEXT)) for _ in range(2)))
        return element("table", [], element("caption", [], "cap") + element("thead", [], row("th")) +
                       element("tbody", [], row("td") + row("td")))
    if el == "details":
        return element("details", [], element("summary", [], "sum") + element("p", [], inl()))
    return "<hr>"


def clean_document(rng, mode):
    return "".join(clean_block(rng, 2, mode) for _ in range(rng.randint(1, 4)))
