"""(room version, current state, candidate event) triples for the authorization monitors.

A finite abstraction that is exhaustive for the comparisons the rules make (roles, each
membership, each join rule incl. unknown ones, levels just below/at/above every threshold,
present/absent/redefined power-level fields, integer vs string levels, federated or not), each
abstract cell instantiated with concrete users / ids."""
import base64
import itertools

from ..ref import canonjson, ed25519

HS1, HS2 = "hs1.org", "hs2.org"
CREATOR = "@creator:" + HS1
ALICE = "@alice:" + HS1          # the usual sender
BOB = "@bob:" + HS2              # the usual target
CAROL = "@carol:" + HS1          # authoriser / bystander
ROOM = "!room:" + HS1
MEMBERSHIPS = ["join", "invite", "leave", "ban", "knock", None]      # None: no member event
JOIN_RULES = [None, "public", "invite", "knock", "restricted", "knock_restricted", "private", "org.custom"]
VERSIONS = list(range(1, 12))
IDSEED = bytes(range(32))


class Builder:
    def __init__(self, version):
        self.v = version
        self.n = 0
        self.state = {}

    def eid(self, hint="e"):
        self.n += 1
        return "$%s%d:%s" % (hint, self.n, HS1)

    def put(self, etype, state_key, sender, content, event_id=None):
        ev = {"type": etype, "state_key": state_key, "sender": sender, "content": content,
              "event_id": event_id or self.eid(), "room_id": ROOM, "origin_server_ts": 1000 + self.n,
              "prev_events": [], "auth_events": []}
        self.state[(etype, state_key)] = ev
        return ev

    def create(self, federate=None, creator_field=True, sender=CREATOR):
        c = {"room_version": str(self.v)}
        if creator_field:
            c["creator"] = sender
        if federate is not None:
            c["m.federate"] = federate
        return self.put("m.room.create", "", sender, c, "$create:" + HS1)

    def member(self, user, membership, sender=None, extra=None):
        if membership is None:
            return None
        c = {"membership": membership}
        c.update(extra or {})
        return self.put("m.room.member", user, sender or user, c)

    def join_rules(self, rule):
        if rule is not None:
            self.put("m.room.join_rules", "", CREATOR, {"join_rule": rule})

    def power_levels(self, content):
        if content is not None:
            self.put("m.room.power_levels", "", CREATOR, content)

    def event(self, etype, sender, content, state_key=None, prev=None, auth=None, redacts=None, event_id=None):
        ev = {"type": etype, "sender": sender, "content": content, "event_id": event_id or self.eid("new"),
              "room_id": ROOM, "origin_server_ts": 5000,
              "prev_events": prev if prev is not None else ["$prev:" + HS1],
              "auth_events": auth if auth is not None else ["$create:" + HS1]}
        if state_key is not None:
            ev["state_key"] = state_key
        if redacts is not None:
            ev["redacts"] = redacts
        return ev

    def triple(self, ev, tag):
        return {"version": self.v, "event": ev, "state": list(self.state.values()), "tag": tag}


def enc(level, how):
    """level encodings (strings only before v10)"""
    if how == "int":
        return level
    if how == "str":
        return str(level)
    return " +%d " % level if level >= 0 else " %d " % level


def around(x):
    return [x - 1, x, x + 1]


def membership_family(versions=VERSIONS, full=True):
    """membership transitions: every (event membership, sender relation, memberships, join rule,
    power levels, levels around the thresholds)"""
    for v in versions:
        for em in ["join", "invite", "leave", "ban", "knock", "org.unknown"]:
            for self_target in (True, False):
                for sm, tm in itertools.product(MEMBERSHIPS, MEMBERSHIPS):
                    if self_target and sm != tm:
                        continue
                    jrs = JOIN_RULES if em in ("join", "knock") else [None, "public"]
                    for jr in jrs:
                        for pl in ("absent", "present"):
                            thr = {"invite": "invite", "leave": "kick", "ban": "ban"}.get(em)
                            sender_rel = [-1, 0, 1] if (thr and pl == "present" and not self_target) else [0]
                            target_rel = [-1, 0, 1] if (em in ("leave", "ban") and pl == "present" and not self_target) else [-1]
                            # kicks / unbans: the ban threshold below, at and above the kick threshold
                            ban_rel = [0, -2, 2] if (em == "leave" and pl == "present" and not self_target) else [0]
                            for srel, trel, brel in itertools.product(sender_rel, target_rel, ban_rel):
                                b = Builder(v)
                                b.create()
                                sender = ALICE
                                target = ALICE if self_target else BOB
                                b.member(CREATOR, "join")
                                b.member(sender, sm, sender=CREATOR if sm in ("ban", "invite") else sender)
                                if not self_target:
                                    b.member(target, tm, sender=CREATOR if tm in ("ban", "invite") else target)
                                b.join_rules(jr)
                                if pl == "present":
                                    threshold = 40
                                    slevel = threshold + srel
                                    c = {"users": {CREATOR: 100, sender: slevel}, "users_default": 0}
                                    if thr:
                                        c[thr] = threshold
                                    if em == "leave":
                                        c["ban"] = threshold + brel      # unban needs the ban level too
                                    if not self_target:
                                        c["users"][target] = slevel + trel
                                    b.power_levels(c)
                                ev = b.event("m.room.member", sender, {"membership": em}, state_key=target)
                                yield b.triple(ev, "member:%s" % em)


def restricted_family(versions=VERSIONS):
    for v in versions:
        for jr in ("restricted", "knock_restricted"):
            for cur in MEMBERSHIPS:
                for auth_m in MEMBERSHIPS + ["absent-field", "bad-id"]:
                    for rel in (-1, 0, 1):
                        for pl in ("absent", "present"):
                            b = Builder(v)
                            b.create()
                            b.member(CREATOR, "join")
                            b.member(BOB, cur, sender=CREATOR if cur in ("ban", "invite") else BOB)
                            b.join_rules(jr)
                            content = {"membership": "join"}
                            if auth_m == "bad-id":
                                content["join_authorised_via_users_server"] = "not a user id"
                            elif auth_m != "absent-field":
                                content["join_authorised_via_users_server"] = CAROL
                                b.member(CAROL, auth_m, sender=CREATOR if auth_m in ("ban", "invite") else CAROL)
                            if pl == "present":
                                b.power_levels({"invite": 30, "users": {CREATOR: 100, CAROL: 30 + rel}})
                            elif rel != 0:
                                continue
                            # authoriser may also be the creator (level 100 without PL event)
                            ev = b.event("m.room.member", BOB, content, state_key=BOB)
                            yield b.triple(ev, "member:restricted")
            # authoriser is the creator, no PL event
            b = Builder(v)
            b.create()
            b.member(CREATOR, "join")
            b.join_rules(jr)
            ev = b.event("m.room.member", BOB, {"membership": "join", "join_authorised_via_users_server": CREATOR}, state_key=BOB)
            yield b.triple(ev, "member:restricted")


def first_join_family(versions=VERSIONS):
    for v in versions:
        for prev in (["$create:" + HS1], ["$create:" + HS1, "$x:" + HS1], ["$x:" + HS1], []):
            for target in (CREATOR, ALICE):
                for sender_is_target in (True, False):
                    for creator_field in (True, False):
                        for jr in (None, "invite"):
                            b = Builder(v)
                            b.create(creator_field=creator_field)
                            b.join_rules(jr)
                            sender = target if sender_is_target else BOB
                            ev = b.event("m.room.member", sender, {"membership": "join"}, state_key=target, prev=prev)
                            yield b.triple(ev, "member:first-join")


def tpi_family(versions=VERSIONS):
    pk = base64.b64encode(ed25519.public_key(IDSEED)).decode().rstrip("=")
    other_pk = base64.b64encode(ed25519.public_key(bytes(32))).decode().rstrip("=")

    def signed_for(mxid, token, seed=IDSEED, tamper=False):
        signed = {"mxid": mxid, "token": token}
        msg = canonjson.encode(signed)
        sig = ed25519.sign(seed, msg)
        if tamper:
            sig = bytes([sig[0] ^ 1]) + sig[1:]
        signed["signatures"] = {"id.example": {"ed25519:0": base64.b64encode(sig).decode().rstrip("=")}}
        return signed
    for v in versions:
        for case in ("valid", "valid-in-list", "valid-top-level-with-list", "valid-last-of-three", "wrong-key-in-both",
                     "valid-list-only", "target-banned", "no-signed", "no-token", "no-mxid", "mxid-mismatch", "no-event",
                     "sender-mismatch", "bad-signature", "wrong-key", "signatures-not-object", "valid-sender-not-joined",
                     "tpi-null"):
            b = Builder(v)
            b.create()
            b.member(CREATOR, "join")
            b.join_rules("invite")
            if case != "valid-sender-not-joined":
                b.member(ALICE, "join")
            if case == "target-banned":
                b.member(BOB, "ban", sender=CREATOR)
            token = "tok1"
            tpi_content = {"display_name": "b...", "key_validity_url": "https://id.example/v", "public_key": pk}
            if case == "valid-in-list":
                tpi_content = {"display_name": "b", "key_validity_url": "https://x", "public_key": other_pk,
                               "public_keys": [{"public_key": other_pk}, {"public_key": pk, "key_validity_url": "https://y"}]}
            third_pk = base64.b64encode(ed25519.public_key(bytes([7]) * 32)).decode().rstrip("=")
            if case == "valid-top-level-with-list":
                # signed by the top-level key, which the list does not repeat
                tpi_content["public_keys"] = [{"public_key": other_pk, "key_validity_url": "https://y"}]
            if case == "valid-last-of-three":
                tpi_content = {"display_name": "b", "key_validity_url": "https://x", "public_key": other_pk,
                               "public_keys": [{"public_key": other_pk}, {"public_key": third_pk}, {"public_key": pk}]}
            if case == "wrong-key-in-both":
                tpi_content = {"display_name": "b", "key_validity_url": "https://x", "public_key": other_pk,
                               "public_keys": [{"public_key": third_pk}, {"public_key": other_pk}]}
            if case == "valid-list-only":
                tpi_content = {"display_name": "b", "key_validity_url": "https://x", "public_key": pk, "public_keys": []}
            if case == "wrong-key":
                tpi_content["public_key"] = other_pk
            if case != "no-event":
                b.put("m.room.third_party_invite", token, CAROL if case == "sender-mismatch" else ALICE, tpi_content)
            signed = signed_for(BOB, token, tamper=(case == "bad-signature"))
            if case == "no-token":
                del signed["token"]
            if case == "no-mxid":
                del signed["mxid"]
            if case == "mxid-mismatch":
                signed = signed_for(CAROL, token)
            if case == "signatures-not-object":
                signed["signatures"] = "x"
            tpi = {"display_name": "b", "signed": signed}
            if case == "no-signed":
                tpi = {"display_name": "b"}
            content = {"membership": "invite", "third_party_invite": tpi}
            if case == "tpi-null":
                content["third_party_invite"] = None
            ev = b.event("m.room.member", ALICE, content, state_key=BOB)
            yield b.triple(ev, "member:tpi:" + case)


def ordinary_family(versions=VERSIONS):
    kinds = [("m.room.message", None), ("m.room.name", ""), ("org.custom.state", "@alice:hs1.org"), ("org.custom.state", BOB),
             # state keys that start with '@' without being the sender's (or anybody's) user ID
             ("org.custom.state", "@alice"), ("org.custom.state", "@"), ("org.custom.state", "@alice:"),
             ("org.custom.state", "@alice:hs1.org/"), ("org.custom.state", "@alice:hs1.org_profile"),
             ("org.custom.state", "@Alice:hs1.org"), ("org.custom.state", " @alice:hs1.org"), ("m.room.name", "@bob:hs2.org_x"),
             ("m.room.third_party_invite", "tok"), ("m.room.aliases", HS1), ("m.room.aliases", HS2), ("m.room.aliases", None),
             ("m.room.redaction", None), ("m.room.topic", "")]
    for v in versions:
        for (etype, sk) in kinds:
            for sm in MEMBERSHIPS:
                for source in ("no-pl", "events", "default", "field-absent"):
                    encs = ["int"] if v >= 10 else ["int", "str", "pad"]
                    for how in encs:
                        rels = [-1, 0, 1] if source != "no-pl" else [0]
                        for rel in rels:
                            if source == "no-pl" and how != "int":
                                continue
                            b = Builder(v)
                            b.create()
                            b.member(CREATOR, "join")
                            b.member(ALICE, sm, sender=CREATOR if sm in ("ban", "invite") else ALICE)
                            is_state = sk is not None
                            need = 35
                            if source != "no-pl":
                                c = {"users": {ALICE: enc(need + rel, how), CREATOR: 100}}
                                dflt = "state_default" if is_state else "events_default"
                                if etype == "m.room.third_party_invite":
                                    c["invite"] = enc(need, how)
                                if source == "events":
                                    c["events"] = {etype: enc(need, how)}
                                    c[dflt] = enc(90, how)
                                elif source == "default":
                                    c[dflt] = enc(need, how)
                                else:
                                    # field absent: default 50 (state) / 0 (message)
                                    c["users"][ALICE] = enc((50 if is_state else 0) + rel, how)
                                    if etype == "m.room.third_party_invite":
                                        del c["invite"]
                                        c["users"][ALICE] = enc(0 + rel, how)
                                b.power_levels(c)
                            kw = {}
                            eid = None
                            if etype == "m.room.redaction":
                                for same in (True, False):
                                    b2 = b
                                    ev = b2.event(etype, ALICE, {"reason": "x"}, redacts=("$t:%s" % (HS1 if same else HS2)),
                                                  event_id="$red%d:%s" % (b.n, HS1))
                                    yield b2.triple(ev, "event:redaction")
                                continue
                            ev = b.event(etype, ALICE, {"x": 1} if etype != "m.room.name" else {"name": "n"}, state_key=sk)
                            yield b.triple(ev, "event:" + etype)


def power_levels_family(versions=VERSIONS):
    S = 50      # sender level
    for v in versions:
        # scalar fields
        for field in ["users_default", "events_default", "state_default", "ban", "redact", "kick", "invite"]:
            vals = [None, S - 1, S, S + 1]
            for old, new in itertools.product(vals, vals):
                b = Builder(v)
                b.create()
                b.member(CREATOR, "join")
                b.member(ALICE, "join")
                cur = {"users": {ALICE: S, CREATOR: 100}, "events": {"m.room.power_levels": S}}
                if old is not None:
                    cur[field] = old
                nw = {"users": {ALICE: S, CREATOR: 100}, "events": {"m.room.power_levels": S}}
                if new is not None:
                    nw[field] = new
                b.power_levels(cur)
                yield b.triple(b.event("m.room.power_levels", ALICE, nw, state_key=""), "pl:scalar:" + field)
        # events / notifications / users maps
        for mapname in ("events", "notifications", "users"):
            for who in ("own", "other"):
                if mapname != "users" and who == "own":
                    continue
                vals = [None, S - 1, S, S + 1]
                for old, new in itertools.product(vals, vals):
                    b = Builder(v)
                    b.create()
                    b.member(CREATOR, "join")
                    b.member(ALICE, "join")
                    key = {"events": "m.room.topic", "notifications": "room", "users": ALICE if who == "own" else BOB}[mapname]
                    cur = {"users": {ALICE: S, CREATOR: 100}, "events": {"m.room.power_levels": S}, "notifications": {}}
                    nw = {"users": {ALICE: S, CREATOR: 100}, "events": {"m.room.power_levels": S}, "notifications": {}}
                    if mapname == "users" and who == "own":
                        # changing the own entry: old is always S (it defines the sender's level)
                        if old != S:
                            continue
                        if new is None:
                            del nw["users"][ALICE]
                        else:
                            nw["users"][ALICE] = new
                    else:
                        if old is not None:
                            cur[mapname][key] = old
                        if new is not None:
                            nw[mapname][key] = new
                    b.power_levels(cur)
                    yield b.triple(b.event("m.room.power_levels", ALICE, nw, state_key=""), "pl:map:%s:%s" % (mapname, who))
        # malformed new content
        bads = [("ban", "50"), ("ban", " +50 "), ("ban", "x"), ("ban", 1.5), ("ban", None), ("ban", True),
                ("events", {"m.room.name": "50"}), ("events", {"m.room.name": "x"}), ("events", []), ("notifications", {"room": "50"}),
                ("notifications", {"room": {}}), ("users", {ALICE: "50"}), ("users", {ALICE: "abc"}), ("users", {"not a user": 50}),
                ("users", {ALICE: 50.5}), ("users", []), ("users", {ALICE: None})]
        for field, val in bads:
            for has_current in (True, False):
                b = Builder(v)
                b.create()
                b.member(CREATOR, "join")
                b.member(ALICE, "join")
                if has_current:
                    b.power_levels({"users": {ALICE: S, CREATOR: 100}, "events": {"m.room.power_levels": S}})
                    sender = ALICE
                else:
                    sender = CREATOR
                nw = {"users": {ALICE: S, CREATOR: 100}, "events": {"m.room.power_levels": S}}
                if field in ("users", "events") and isinstance(val, dict):
                    nw[field] = dict(nw[field], **val)
                else:
                    nw[field] = val
                yield b.triple(b.event("m.room.power_levels", sender, nw, state_key=""), "pl:malformed:" + field)
        # first power levels event by a non-creator joined user (no current PL: state_default 50 applies)
        for sender in (CREATOR, ALICE):
            b = Builder(v)
            b.create()
            b.member(CREATOR, "join")
            b.member(ALICE, "join")
            yield b.triple(b.event("m.room.power_levels", sender, {"users": {sender: 100}}, state_key=""), "pl:initial")


def create_and_general_family(versions=VERSIONS):
    for v in versions:
        for prev in ([], ["$x:" + HS1]):
            for room in (ROOM, "!room:" + HS2, "!noserver"):
                for creator_field in (True, False, "null"):
                    b = Builder(v)
                    c = {"room_version": str(v)}
                    if creator_field is True:
                        c["creator"] = CREATOR
                    elif creator_field == "null":
                        c["creator"] = None
                    ev = b.event("m.room.create", CREATOR, c, state_key="", prev=prev, auth=[])
                    ev["room_id"] = room
                    yield b.triple(ev, "create")
        for case in ("no-create", "create-not-in-auth", "not-federated-other", "not-federated-same", "federated-other",
                     "federate-null"):
            b = Builder(v)
            if case != "no-create":
                b.create(federate={"not-federated-other": False, "not-federated-same": False, "federated-other": True}.get(case))
            b.member(CREATOR, "join")
            sender = BOB if case in ("not-federated-other", "federated-other") else ALICE
            b.member(sender, "join")
            ev = b.event("m.room.message", sender, {"body": "x"}, auth=(["$other:" + HS1] if case == "create-not-in-auth" else None))
            yield b.triple(ev, "general:" + case)


def malformed_member_and_redaction_family(versions=VERSIONS):
    for v in versions:
        for case in ("no-state-key", "state-key-not-user", "state-key-empty", "no-membership", "membership-int", "content-array"):
            for sm in ("join", None):
                b = Builder(v)
                b.create()
                b.member(CREATOR, "join")
                b.member(ALICE, sm)
                b.join_rules("public")
                content = {"membership": "join"}
                sk = ALICE
                if case == "no-state-key":
                    sk = None
                elif case == "state-key-not-user":
                    sk = "not-a-user"
                elif case == "state-key-empty":
                    sk = ""
                elif case == "no-membership":
                    content = {"displayname": "x"}
                elif case == "membership-int":
                    content = {"membership": 5}
                ev = b.event("m.room.member", ALICE, content, state_key=sk)
                if case == "content-array":
                    ev["content"] = "[]"          # raw text: content that is not an object
                yield b.triple(ev, "member:malformed:" + case)
        # redaction: sender level around the redact threshold x same / other domain of the redacted event id
        for rel in (-1, 0, 1):
            for same in (True, False, None):
                for pl in ("present", "absent-field", "no-pl"):
                    b = Builder(v)
                    b.create()
                    b.member(CREATOR, "join")
                    b.member(ALICE, "join")
                    if pl == "present":
                        b.power_levels({"redact": 30, "users": {ALICE: 30 + rel, CREATOR: 100}})
                    elif pl == "absent-field":
                        b.power_levels({"users": {ALICE: 50 + rel, CREATOR: 100}})
                    elif rel != 0:
                        continue
                    red = None if same is None else "$t:%s" % (HS1 if same else HS2)
                    ev = b.event("m.room.redaction", ALICE, {"reason": "x"}, redacts=red, event_id="$red:" + HS1)
                    yield b.triple(ev, "event:redaction-level")
                    evc = b.event("m.room.redaction", CREATOR, {}, redacts=red, event_id="$red2:" + HS2)
                    yield b.triple(evc, "event:redaction-level")


LEVELS = [0, 10, 25, 40, 41, 50, 75, 100]


def random_family(seed, n, versions=VERSIONS):
    """random rooms and candidate events: every power-level field independently absent or drawn from
    LEVELS (so thresholds differ from each other), random memberships / join rules / event kinds.
    Complements the product families, which move one threshold at a time."""
    import random

    def fam():
        rng = random.Random("authgen-random-%s" % seed)
        users = [CREATOR, ALICE, BOB, CAROL]
        for _ in range(n):
            v = rng.choice(versions)
            b = Builder(v)
            b.create(federate=rng.choice([None, None, None, True, False]))
            b.member(CREATOR, rng.choice(["join", "join", "join", "leave"]))
            ms = {}
            for u in (ALICE, BOB, CAROL):
                ms[u] = rng.choice(["join", "join", "join", "invite", "leave", "ban", "knock", None])
                b.member(u, ms[u], sender=CREATOR if ms[u] in ("ban", "invite") else u)
            b.join_rules(rng.choice(JOIN_RULES))
            pl = None
            if rng.random() < 0.85:
                pl = {}
                for f in ("ban", "kick", "invite", "redact", "state_default", "events_default", "users_default"):
                    if rng.random() < 0.6:
                        lv = rng.choice(LEVELS)
                        pl[f] = str(lv) if (v < 10 and rng.random() < 0.1) else lv
                if rng.random() < 0.9:
                    pl["users"] = {u: rng.choice(LEVELS) for u in users if rng.random() < 0.7}
                if rng.random() < 0.6:
                    pl["events"] = {t: rng.choice(LEVELS) for t in ("m.room.name", "m.room.power_levels", "m.room.message",
                                                                  "m.room.third_party_invite", "m.room.member", "m.room.redaction",
                                                                  "m.room.join_rules") if rng.random() < 0.4}
                if rng.random() < 0.3:
                    pl["notifications"] = {"room": rng.choice(LEVELS)}
                b.power_levels(pl)
            sender = rng.choice([ALICE, ALICE, ALICE, BOB, CREATOR])
            kind = rng.choice(["member", "member", "member", "message", "state", "power_levels", "redaction", "tpi", "join_rules"])
            if kind == "member":
                target = rng.choice([sender, sender, BOB, CAROL, ALICE])
                c = {"membership": rng.choice(["join", "invite", "leave", "leave", "ban", "knock"])}
                if c["membership"] == "join" and rng.random() < 0.3:
                    c["join_authorised_via_users_server"] = rng.choice([CAROL, CREATOR, BOB])
                ev = b.event("m.room.member", sender, c, state_key=target)
            elif kind == "message":
                ev = b.event(rng.choice(["m.room.message", "m.reaction", "org.custom"]), sender, {"body": "x"})
            elif kind == "state":
                ev = b.event(rng.choice(["m.room.name", "m.room.topic", "org.custom.state", "m.room.history_visibility"]), sender,
                             {"name": "x"}, state_key=rng.choice(["", "", sender, "@other:" + HS2, "key"]))
            elif kind == "join_rules":
                ev = b.event("m.room.join_rules", sender, {"join_rule": rng.choice(JOIN_RULES[1:])}, state_key="")
            elif kind == "tpi":
                ev = b.event("m.room.third_party_invite", sender, {"display_name": "d", "key_validity_url": "https://x/y",
                                                                   "public_key": "abc", "public_keys": []}, state_key="tok")
            elif kind == "redaction":
                ev = b.event("m.room.redaction", sender, {"redacts": "$victim:" + rng.choice([HS1, HS2])} if v >= 11 else {},
                             redacts="$victim:" + rng.choice([HS1, HS2]), event_id="$red:" + rng.choice([HS1, HS2]))
            else:
                import copy
                new = copy.deepcopy(pl) if pl is not None else {}
                for _k in range(rng.randint(1, 3)):
                    what = rng.choice(["scalar", "scalar", "user", "event", "notification"])
                    if what == "scalar":
                        f = rng.choice(["ban", "kick", "invite", "redact", "state_default", "events_default", "users_default"])
                        if rng.random() < 0.2:
                            new.pop(f, None)
                        else:
                            new[f] = rng.choice(LEVELS)
                    elif what == "user":
                        u = rng.choice(users)
                        d = new.setdefault("users", {})
                        if rng.random() < 0.25:
                            d.pop(u, None)
                        else:
                            d[u] = rng.choice(LEVELS)
                    elif what == "event":
                        d = new.setdefault("events", {})
                        t = rng.choice(["m.room.name", "m.room.power_levels", "m.room.message", "org.new"])
                        if rng.random() < 0.25:
                            d.pop(t, None)
                        else:
                            d[t] = rng.choice(LEVELS)
                    else:
                        d = new.setdefault("notifications", {})
                        if rng.random() < 0.25:
                            d.pop("room", None)
                        else:
                            d["room"] = rng.choice(LEVELS)
                ev = b.event("m.room.power_levels", sender, new, state_key="")
            yield b.triple(ev, "random:%s" % kind)
    return fam


def all_families(versions=VERSIONS):
    return [("membership", membership_family), ("restricted", restricted_family), ("first-join", first_join_family),
            ("tpi", tpi_family), ("ordinary", ordinary_family), ("power-levels", power_levels_family),
            ("create-general", create_and_general_family), ("malformed-redaction", malformed_member_and_redaction_family)]


def randomize(rng, triple):
    """a second, randomised instantiation of an abstract cell: fresh user names / ids"""
    import json
    s = json.dumps(triple)
    sub = {"alice": "u%d" % rng.randint(0, 999), "bob": "v%d" % rng.randint(0, 999), "carol": "w%d" % rng.randint(0, 999),
           "creator": "c%d" % rng.randint(0, 999)}
    for k, val in sub.items():
        s = s.replace("@%s:" % k, "@%s:" % val)
    return json.loads(s)
