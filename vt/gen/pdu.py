"""Generators of federation-format event objects (PDUs) for the redaction / hash / signature
monitors. Everything is plain Python data; leaves carry unique markers so that "values untouched"
is checkable."""
from . import jsongen as g

TOP_KEYS = ["event_id", "type", "room_id", "sender", "state_key", "content", "hashes", "signatures",
            "depth", "prev_events", "auth_events", "origin_server_ts", "origin", "membership",
            "prev_state", "unsigned", "redacts", "age", "age_ts", "outlier", "destinations",
            "replaces_state", "prev_content", "invite_room_state"]
JUNK_KEYS = ["junk", "", "Type", "type ", "Content", "membership ", "m.relates_to", "é",
             "\U0001f600", "signatures2", "creator", "join_rule", "redacted_because"]

CONTENT_KEYS = {
    "m.room.member": ["membership", "displayname", "avatar_url", "is_direct", "reason",
                      "join_authorised_via_users_server", "third_party_invite"],
    "m.room.create": ["creator", "room_version", "m.federate", "predecessor", "type",
                      "additional_creators"],
    "m.room.join_rules": ["join_rule", "allow"],
    "m.room.power_levels": ["ban", "events", "events_default", "invite", "kick", "notifications",
                            "redact", "state_default", "users", "users_default"],
    "m.room.aliases": ["aliases"],
    "m.room.history_visibility": ["history_visibility"],
    "m.room.redaction": ["redacts", "reason"],
    "m.room.message": ["body", "msgtype", "format", "formatted_body", "m.relates_to"],
    "m.room.topic": ["topic"],
    "m.room.name": ["name"],
    "m.room.server_acl": ["allow", "deny", "allow_ip_literals"],
    "m.room.third_party_invite": ["display_name", "key_validity_url", "public_key", "public_keys"],
    "x.custom.type": ["anything"],
}
ALL_CONTENT_KEYS = sorted({k for ks in CONTENT_KEYS.values() for k in ks})
EVENT_TYPES = list(CONTENT_KEYS.keys())
MEMBERSHIPS = ["join", "invite", "leave", "ban", "knock"]

SERVERS = ["a.example", "b.example.org", "c.test:8448", "[::1]:8448", "1.2.3.4", "d-e.f"]
LOCALPARTS = ["alice", "bob", "carol_1", "dave.x", "eve=1", "frank/2", "a-b+c"]


class Markers:
    def __init__(self, rng):
        self.rng = rng
        self.n = 0

    def leaf(self):
        self.n += 1
        r = self.rng.random()
        if r < 0.5:
            return "m%d" % self.n
        if r < 0.7:
            return self.n * 7 + 1
        if r < 0.8:
            return g.rand_string(self.rng) + "#%d" % self.n
        if r < 0.9:
            return [self.n, "m%d" % self.n]
        return {"k%d" % self.n: self.n, "nested": {"deep": ["m%d" % self.n, None, True]}}


def user(rng, server=None):
    return "@%s:%s" % (rng.choice(LOCALPARTS), server or rng.choice(SERVERS))


def room_id(rng):
    return "!%s:%s" % (rng.choice(["room", "abcDEF123", "r-1"]), rng.choice(SERVERS))


def event_id_v1(rng, server=None):
    return "$%s:%s" % (rng.choice(["ev1", "143273582443PhrSn", "x"]), server or rng.choice(SERVERS))


def member_content(rng, mk, membership=None, tpi=None, authorised=None):
    c = {"membership": membership or rng.choice(MEMBERSHIPS)}
    if rng.random() < 0.5:
        c["displayname"] = mk.leaf()
    if rng.random() < 0.3:
        c["avatar_url"] = "mxc://%s/%d" % (rng.choice(SERVERS[:2]), rng.randint(1, 999))
    if rng.random() < 0.3:
        c["reason"] = mk.leaf()
    if authorised:
        c["join_authorised_via_users_server"] = authorised
    if tpi:
        t = {"display_name": mk.leaf()}
        if tpi != "nosigned":
            t["signed"] = {"mxid": user(rng), "token": "tok%d" % rng.randint(0, 99),
                           "signatures": {"id.example": {"ed25519:0": "c2ln"}}}
        if rng.random() < 0.3:
            t["extra"] = mk.leaf()
        c["third_party_invite"] = t
    return c


def content_for(rng, etype, mk, **kw):
    if etype == "m.room.member":
        return member_content(rng, mk, **kw)
    if etype == "m.room.create":
        c = {"creator": user(rng), "room_version": str(rng.randint(1, 11))}
        if rng.random() < 0.5:
            c["m.federate"] = rng.random() < 0.5
        if rng.random() < 0.3:
            c["predecessor"] = {"room_id": room_id(rng), "event_id": "$old"}
        return c
    if etype == "m.room.join_rules":
        c = {"join_rule": rng.choice(["public", "invite", "knock", "restricted", "knock_restricted"])}
        if rng.random() < 0.6:
            c["allow"] = [{"type": "m.room_membership", "room_id": room_id(rng)}]
        return c
    if etype == "m.room.power_levels":
        c = {}
        for k in ["ban", "events_default", "invite", "kick", "redact", "state_default",
                  "users_default"]:
            if rng.random() < 0.6:
                c[k] = rng.choice([0, 50, 100, rng.randint(-5, 150)])
        if rng.random() < 0.7:
            c["users"] = {user(rng): rng.choice([0, 50, 100]) for _ in range(rng.randint(0, 3))}
        if rng.random() < 0.6:
            c["events"] = {rng.choice(EVENT_TYPES): rng.choice([0, 50, 100])
                           for _ in range(rng.randint(0, 3))}
        if rng.random() < 0.4:
            c["notifications"] = {"room": rng.choice([0, 50])}
        return c
    if etype == "m.room.aliases":
        return {"aliases": ["#%s:%s" % (rng.choice(["x", "y"]), rng.choice(SERVERS))
                            for _ in range(rng.randint(0, 2))]}
    if etype == "m.room.history_visibility":
        return {"history_visibility": rng.choice(["shared", "invited", "joined", "world_readable"])}
    if etype == "m.room.redaction":
        c = {}
        if rng.random() < 0.7:
            c["redacts"] = "$redacted%d" % rng.randint(0, 9)
        if rng.random() < 0.5:
            c["reason"] = mk.leaf()
        return c
    if etype == "m.room.message":
        return {"msgtype": "m.text", "body": mk.leaf()}
    return {k: mk.leaf() for k in CONTENT_KEYS.get(etype, ["x"]) if rng.random() < 0.7}


def pdu(rng, version, etype=None, extra_top=0.5, extra_content=0.5, well_formed=True, **kw):
    """A federation-format event. well_formed: sender/event_id/room_id are valid identifiers."""
    mk = Markers(rng)
    etype = etype or rng.choice(EVENT_TYPES)
    server = rng.choice(SERVERS)
    sender = kw.pop("sender", None) or user(rng, server)
    ev = {
        "type": etype,
        "room_id": room_id(rng),
        "sender": sender,
        "origin_server_ts": rng.randint(0, 2 ** 40),
        "depth": rng.randint(0, 1000),
        "content": content_for(rng, etype, mk, **kw),
    }
    if version <= 2:
        ev["event_id"] = kw.get("event_id") or event_id_v1(rng, server)
        ev["prev_events"] = [["$p:%s" % server, {"sha256": "abc"}]]
        ev["auth_events"] = [["$a:%s" % server, {"sha256": "def"}]]
    else:
        ev["prev_events"] = ["$prev%d" % rng.randint(0, 99) for _ in range(rng.randint(1, 2))]
        ev["auth_events"] = ["$auth%d" % rng.randint(0, 99) for _ in range(rng.randint(0, 3))]
    if etype in ("m.room.member",):
        ev["state_key"] = kw.get("state_key") or user(rng)
    elif etype not in ("m.room.message", "m.room.redaction"):
        ev["state_key"] = ""
    if etype == "m.room.redaction" and rng.random() < 0.7:
        ev["redacts"] = "$redacted%d" % rng.randint(0, 9)
    if rng.random() < 0.5:
        ev["origin"] = server
    if rng.random() < 0.2:
        ev["membership"] = rng.choice(MEMBERSHIPS)
    if rng.random() < 0.2:
        ev["prev_state"] = []
    if rng.random() < 0.5:
        ev["unsigned"] = {"age": rng.randint(0, 9999), "x": mk.leaf()}
    # extra (unspecified) keys
    while rng.random() < extra_top:
        ev[rng.choice(JUNK_KEYS + TOP_KEYS[15:])] = mk.leaf()
    while rng.random() < extra_content:
        ev["content"][rng.choice(JUNK_KEYS + ALL_CONTENT_KEYS)] = mk.leaf()
    return ev


def arbitrary_event(rng, etype=None):
    """For C04: any subset of specified and unspecified keys, arbitrary nested values."""
    mk = Markers(rng)
    etype = etype or rng.choice(EVENT_TYPES + ["", "m.room.member ", "M.ROOM.MEMBER", "m.room"])
    ev = {"type": etype}
    for k in TOP_KEYS + JUNK_KEYS:
        if k in ("type", "content"):
            continue
        if rng.random() < 0.35:
            ev[k] = mk.leaf() if rng.random() < 0.8 else g.rand_value(rng, 3, 4)
    r = rng.random()
    if r < 0.9:
        c = {}
        pool = CONTENT_KEYS.get(etype, []) * 3 + ALL_CONTENT_KEYS + JUNK_KEYS
        for _ in range(rng.randint(0, 8)):
            k = rng.choice(pool)
            c[k] = mk.leaf() if rng.random() < 0.8 else g.rand_value(rng, 3, 4)
        if "third_party_invite" in c or (etype == "m.room.member" and rng.random() < 0.4):
            q = rng.random()
            if q < 0.5:
                c["third_party_invite"] = {"display_name": mk.leaf(), "signed": mk.leaf(),
                                           "x": mk.leaf()}
            elif q < 0.7:
                c["third_party_invite"] = {"display_name": mk.leaf()}
            elif q < 0.8:
                c["third_party_invite"] = {}
            elif q < 0.9:
                c["third_party_invite"] = {"signed": {"a": mk.leaf()}}
            else:
                c["third_party_invite"] = mk.leaf()
        ev["content"] = c
    elif r < 0.95:
        pass  # no content
    else:
        ev["content"] = rng.choice([1, "s", None, [], True])
    return ev
