"""Event JSON generators from the specification's schemas (client-server API: room events,
m.room.message msgtypes and relations, VoIP, key verification, ephemeral, account-data and
to-device events). Each schema: required fields (always generated) and optional fields
(present/absent at random). Values are generators taking the rng."""

USERS = ["@alice:example.org", "@bob:matrix.org", "@carol:a.b:8448"]
ROOMS = ["!room:example.org", "!abcDEF:matrix.org"]
EVENTS = ["$ev1:example.org", "$acR1l0raoZnm60CBwAVgqbZqoO/mYU81xysh1u7XcJk", "$Rqnc-F-dvnEYJTyHq_iKxU2bZ1CI92-kuZq3a5lr5Zg"]
MXC = ["mxc://example.org/abc123", "mxc://matrix.org/XYZ_-9"]


def S(*opts):
    o = opts or ("text", "hello world", "é", "", "a\"b\\c", "😀")
    return lambda r: r.choice(o)


def I(lo=0, hi=1000):
    # a third of the values sit on the range ends and on the protocol's usual defaults (0, 50, 100)
    special = [x for x in (lo, hi, 0, 1, 49, 50, 51, 100) if lo <= x <= hi]
    return lambda r: r.choice(special) if r.random() < 0.35 else r.randint(lo, hi)


B = lambda r: r.random() < 0.5
UID = lambda r: r.choice(USERS)
RID = lambda r: r.choice(ROOMS)
EID = lambda r: r.choice(EVENTS)
URL = lambda r: r.choice(MXC)


def L(gen, lo=0, hi=3):
    return lambda r: [gen(r) for _ in range(r.randint(lo, hi))]


def O(req=None, opt=None):
    """object generator"""
    return lambda r: build(r, req or {}, opt or {})


class NoExtra(dict):
    """a JSON object that is a *map* (keys are data): unknown fields must not be added to it"""


def M(keygen, valgen, lo=0, hi=3):
    return lambda r: NoExtra({keygen(r): valgen(r) for _ in range(r.randint(lo, hi))})


def USET(gen, lo=0, hi=3):
    """array with set semantics: unique, sorted"""
    return lambda r: sorted({gen(r) for _ in range(r.randint(lo, hi))})


def build(r, req, opt, p=0.5):
    out = {}
    for k, g in req.items():
        out[k] = g(r)
    for k, g in opt.items():
        if r.random() < p:
            out[k] = g(r)
    return out


IMAGE_INFO = O({}, {"h": I(), "w": I(), "mimetype": S("image/png", "image/jpeg"), "size": I(0, 10 ** 6),
                    "thumbnail_url": URL, "thumbnail_info": O({}, {"h": I(), "w": I(), "mimetype": S("image/png"), "size": I()})})
FILE_INFO = O({}, {"mimetype": S("application/pdf", "text/plain"), "size": I(0, 10 ** 6)})
AUDIO_INFO = O({}, {"duration": I(), "mimetype": S("audio/ogg"), "size": I()})
VIDEO_INFO = O({}, {"duration": I(), "h": I(), "w": I(), "mimetype": S("video/mp4"), "size": I(), "thumbnail_url": URL})
ENCRYPTED_FILE = O({"url": URL, "key": O({"kty": S("oct"), "key_ops": lambda r: ["encrypt", "decrypt"], "alg": S("A256CTR"),
                                           "k": S("aWF6-32KGYaC3A_FEUCk1Bt0JA37zP0wrStgmdCaW-0"), "ext": lambda r: True}),
                    "iv": S("w+sE15fzSc0AAAAAAAAAAA"), "hashes": lambda r: NoExtra({"sha256": "fdSLu/YkRx3Wyh3KQabP3rd6+SFiKg5lsJZQHtkSAYA"}),
                    "v": S("v2")})
SDP = O({"sdp": S("v=0\r\no=- 6584580628695956864 2 IN IP4 127.0.0.1"), "type": S("offer", "answer")})
REL_REFERENCE = O({"rel_type": S("m.reference"), "event_id": EID})

STATE = {
    "m.room.create": ({}, {"creator": UID, "m.federate": B, "room_version": S("1", "6", "10", "11"),
                           "predecessor": O({"room_id": RID, "event_id": EID}), "type": S("m.space")}),
    "m.room.member": ({"membership": S("join", "invite", "leave", "ban", "knock")},
                      {"displayname": S(), "avatar_url": URL, "is_direct": B, "reason": S(),
                       "join_authorised_via_users_server": UID,
                       "third_party_invite": O({"display_name": S(), "signed": O({
                           "mxid": UID, "token": S("tok"), "signatures": lambda r: NoExtra({"id.example": NoExtra({"ed25519:0": "c2ln"})})})})}),
    "m.room.power_levels": ({}, {"ban": I(0, 100), "events": M(S("m.room.name", "m.room.message", "x.y"), I(0, 100)),
                                 "events_default": I(0, 100), "invite": I(0, 100), "kick": I(0, 100), "redact": I(0, 100),
                                 "state_default": I(0, 100), "users": M(UID, I(-10, 100)), "users_default": I(0, 100),
                                 "notifications": O({}, {"room": I(0, 100)})}),
    "m.room.join_rules": ({"join_rule": S("public", "invite", "knock", "private")}, {}),
    "m.room.join_rules#restricted": ({"join_rule": S("restricted", "knock_restricted")},
                                     {"allow": L(O({"type": S("m.room_membership"), "room_id": RID}))}),
    "m.room.history_visibility": ({"history_visibility": S("invited", "joined", "shared", "world_readable")}, {}),
    "m.room.guest_access": ({"guest_access": S("can_join", "forbidden")}, {}),
    "m.room.name": ({"name": S()}, {}),
    "m.room.topic": ({"topic": S()}, {}),
    "m.room.avatar": ({}, {"url": URL, "info": IMAGE_INFO}),
    "m.room.canonical_alias": ({}, {"alias": S("#a:example.org"), "alt_aliases": L(S("#b:example.org", "#c:x.y"))}),
    "m.room.aliases": ({"aliases": L(S("#b:example.org", "#c:x.y"))}, {}),
    "m.room.encryption": ({"algorithm": S("m.megolm.v1.aes-sha2")}, {"rotation_period_ms": I(1, 10 ** 9), "rotation_period_msgs": I(1, 1000)}),
    "m.room.pinned_events": ({"pinned": L(EID)}, {}),
    "m.room.server_acl": ({}, {"allow": L(S("*", "a.org")), "deny": L(S("evil.*")), "allow_ip_literals": B}),
    "m.room.tombstone": ({"body": S(), "replacement_room": RID}, {}),
    "m.room.third_party_invite": ({"display_name": S(), "key_validity_url": S("https://id.example/valid"),
                                   "public_key": S("abcDEF123+/")},
                                  {"public_keys": L(O({"public_key": S("abc")}, {"key_validity_url": S("https://x/y")}))}),
    "m.space.child": ({"via": L(S("example.org", "a.b"))}, {"order": S("a", "zz"), "suggested": B}),
    "m.space.parent": ({"via": L(S("example.org"))}, {"canonical": B}),
    "m.policy.rule.user": ({"entity": S("@evil*:x.org"), "recommendation": S("m.ban"), "reason": S()}, {}),
    "m.policy.rule.room": ({"entity": S("!r:x.org"), "recommendation": S("m.ban", "org.custom"), "reason": S()}, {}),
    "m.policy.rule.server": ({"entity": S("*.evil.org"), "recommendation": S("m.ban"), "reason": S()}, {}),
}

RELATIONS = [
    None, None,
    O({"m.in_reply_to": O({"event_id": EID})}),
    O({"rel_type": S("m.thread"), "event_id": EID}, {"is_falling_back": B, "m.in_reply_to": O({"event_id": EID})}),
    O({"rel_type": S("m.reference"), "event_id": EID}),
    O({"rel_type": S("org.custom.rel"), "event_id": EID}, {"extra": S()}),
]
MENTIONS = O({}, {"user_ids": USET(UID), "room": B})


def msg(body_req, opt=None):
    return (body_req, dict(opt or {}))


MESSAGE_TYPES = {
    "m.text": msg({"body": S()}, {"format": S("org.matrix.custom.html"), "formatted_body": S("<b>x</b>")}),
    "m.emote": msg({"body": S()}, {"format": S("org.matrix.custom.html"), "formatted_body": S("<i>x</i>")}),
    "m.notice": msg({"body": S()}, {"format": S("org.matrix.custom.html"), "formatted_body": S("x")}),
    "m.image": msg({"body": S("img.png"), "url": URL}, {"info": IMAGE_INFO, "filename": S("img.png")}),
    "m.image#enc": msg({"body": S("img.png"), "file": ENCRYPTED_FILE}, {"info": IMAGE_INFO}),
    "m.file": msg({"body": S("f.pdf"), "url": URL}, {"filename": S("f.pdf"), "info": FILE_INFO}),
    "m.audio": msg({"body": S("a.ogg"), "url": URL}, {"info": AUDIO_INFO}),
    "m.video": msg({"body": S("v.mp4"), "url": URL}, {"info": VIDEO_INFO}),
    "m.location": msg({"body": S("here"), "geo_uri": S("geo:51.5,-0.1")}, {"info": O({}, {"thumbnail_url": URL})}),
    "m.key.verification.request": msg({"body": S(), "from_device": S("DEV"), "methods": L(S("m.sas.v1"), 1, 2), "to": UID}),
    "m.server_notice": msg({"body": S(), "server_notice_type": S("m.server_notice.usage_limit_reached")},
                           {"admin_contact": S("mailto:a@b"), "limit_type": S("monthly_active_user")}),
    "org.custom.msgtype": msg({"body": S()}, {"custom_field": S(), "n": I()}),
}

VERSION = lambda r: r.choice([0, "1"])
MESSAGE_LIKE = {
    "m.room.redaction": ({}, {"redacts": EID, "reason": S()}),
    "m.reaction": ({"m.relates_to": O({"rel_type": S("m.annotation"), "event_id": EID, "key": S("👍", "x")})}, {}),
    "m.sticker": ({"body": S(), "info": IMAGE_INFO, "url": URL}, {}),
    # sender_key / device_id are deprecated but "must still be sent" (spec v1.3+)
    "m.room.encrypted": ({"algorithm": S("m.megolm.v1.aes-sha2"), "ciphertext": S("AwgAEn"), "session_id": S("sess"),
                          "sender_key": S("key"), "device_id": S("DEV")}, {"m.relates_to": REL_REFERENCE}),
    "m.room.encrypted#olm": ({"algorithm": S("m.olm.v1.curve25519-aes-sha2"), "sender_key": S("key"),
                              "ciphertext": lambda r: NoExtra({"7qZcfnBmbEGzxxaWfBjElJuvn7BZx+lSz/SvFrDF/z8": {"body": "AwogGJ", "type": r.choice([0, 1])}})}, {}),
    "m.call.invite": ({"call_id": S("c1"), "lifetime": I(1, 60000), "offer": SDP, "version": VERSION}, {"party_id": S("p1"), "invitee": UID}),
    "m.call.answer": ({"call_id": S("c1"), "answer": SDP, "version": VERSION}, {"party_id": S("p1")}),
    "m.call.candidates": ({"call_id": S("c1"), "version": VERSION,
                           "candidates": L(O({"candidate": S("candidate:1"), "sdpMid": S("0"), "sdpMLineIndex": I(0, 3)}), 1, 2)},
                          {"party_id": S("p1")}),
    "m.call.hangup": ({"call_id": S("c1"), "version": VERSION}, {"party_id": S("p1"), "reason": S("ice_failed", "invite_timeout", "user_hangup")}),
    "m.call.select_answer": ({"call_id": S("c1"), "party_id": S("p1"), "selected_party_id": S("p2"), "version": S("1")}, {}),
    "m.call.reject": ({"call_id": S("c1"), "party_id": S("p1"), "version": S("1")}, {}),
    "m.call.negotiate": ({"call_id": S("c1"), "party_id": S("p1"), "lifetime": I(1, 60000), "description": SDP, "version": S("1")}, {}),
    "m.key.verification.ready": ({"from_device": S("DEV"), "methods": L(S("m.sas.v1", "m.reciprocate.v1"), 1, 2), "m.relates_to": REL_REFERENCE}, {}),
    "m.key.verification.start": ({"from_device": S("DEV"), "method": S("m.sas.v1"),
                                  "key_agreement_protocols": L(S("curve25519-hkdf-sha256"), 1, 1), "hashes": L(S("sha256"), 1, 1),
                                  "message_authentication_codes": L(S("hkdf-hmac-sha256.v2", "hkdf-hmac-sha256"), 1, 2),
                                  "short_authentication_string": L(S("decimal", "emoji"), 1, 2), "m.relates_to": REL_REFERENCE}, {}),
    "m.key.verification.cancel": ({"code": S("m.user", "m.timeout", "org.custom"), "reason": S(), "m.relates_to": REL_REFERENCE}, {}),
    "m.key.verification.accept": ({"method": S("m.sas.v1"), "key_agreement_protocol": S("curve25519-hkdf-sha256"), "hash": S("sha256"),
                                   "message_authentication_code": S("hkdf-hmac-sha256.v2"),
                                   "short_authentication_string": L(S("decimal", "emoji"), 1, 2),
                                   "commitment": S("fQpGIW1Snz+pwLZu6sTy2aHy/DYWWTspTJRPyNp0PKkymfIsNffysMl6ObMMFdIJhk6g6pwlIqZ54rxo8SLmAg"),
                                   "m.relates_to": REL_REFERENCE}, {}),
    "m.key.verification.key": ({"key": S("fQpGIW1Snz+pwLZu6sTy2aHy/DYWWTspTJRPyNp0PKkymfIsNffysMl6ObMMFdIJhk6g6pwlIqZ54rxo8SLmAg"),
                                "m.relates_to": REL_REFERENCE}, {}),
    "m.key.verification.mac": ({"mac": lambda r: NoExtra({"ed25519:DEV": "mac1"}), "keys": S("keysmac"), "m.relates_to": REL_REFERENCE}, {}),
    "m.key.verification.done": ({"m.relates_to": REL_REFERENCE}, {}),
}

EPHEMERAL = {
    "m.typing": ({"user_ids": L(UID)}, {}),
    "m.receipt": ({}, {}),   # built specially
}
GLOBAL_ACCOUNT = {
    "m.direct": ({}, {}),    # built specially
    "m.identity_server": ({}, {"base_url": S("https://id.example")}),
    "m.ignored_user_list": ({"ignored_users": M(UID, lambda r: {})}, {}),
    "m.push_rules": ({"global": O({}, {"override": lambda r: [], "content": lambda r: []})}, {}),
    "m.secret_storage.default_key": ({"key": S("abc")}, {}),
    "m.secret_storage.key.abc": ({"algorithm": S("m.secret_storage.v1.aes-hmac-sha2")},
                                 {"name": S("k"), "iv": S("YWJjZGVmZ2hpamtsbW5vcA"), "mac": S("aWRvbnRrbm93d2hhdGFtYWNsb29rc2xpa2U")}),
}
ROOM_ACCOUNT = {
    "m.fully_read": ({"event_id": EID}, {}),
    "m.tag": ({"tags": M(S("m.favourite", "u.work", "m.lowpriority"), O({}, {"order": lambda r: r.choice([0.25, 0.5, 1])}))}, {}),
    "m.marked_unread": ({"unread": B}, {}),
}
TO_DEVICE = {
    "m.dummy": ({}, {}),
    "m.room_key": ({"algorithm": S("m.megolm.v1.aes-sha2"), "room_id": RID, "session_id": S("sess"), "session_key": S("AgAAAAC")}, {}),
    "m.room_key_request": ({"action": S("request"), "requesting_device_id": S("DEV"), "request_id": S("r1"),
                            "body": O({"algorithm": S("m.megolm.v1.aes-sha2"), "room_id": RID, "session_id": S("sess"), "sender_key": S("k")})}, {}),
    "m.room_key_request#cancel": ({"action": S("request_cancellation"), "requesting_device_id": S("DEV"), "request_id": S("r1")}, {}),
    "m.forwarded_room_key": ({"algorithm": S("m.megolm.v1.aes-sha2"), "room_id": RID, "sender_key": S("k"), "session_id": S("s"),
                              "session_key": S("AgAAAAC"), "sender_claimed_ed25519_key": S("ed"),
                              "forwarding_curve25519_key_chain": L(S("k1"))}, {}),
    "m.key.verification.request": ({"from_device": S("DEV"), "methods": L(S("m.sas.v1"), 1, 2), "timestamp": I(0, 2 ** 40), "transaction_id": S("t1")}, {}),
    "m.key.verification.done": ({"transaction_id": S("t1")}, {}),
    "m.key.verification.key": ({"transaction_id": S("t1"), "key": S("fQpGIW1Snz+pwLZu6sTy2aHy/DYWWTspTJRPyNp0PKk")}, {}),
    "m.secret.request": ({"action": S("request"), "requesting_device_id": S("DEV"), "request_id": S("r"), "name": S("m.cross_signing.master", "org.custom")}, {}),
    "m.secret.send": ({"request_id": S("r"), "secret": S("c2VjcmV0")}, {}),
    "m.room.encrypted": ({"algorithm": S("m.olm.v1.curve25519-aes-sha2"), "sender_key": S("key"),
                          "ciphertext": lambda r: NoExtra({"7qZcfnBmbEGzxxaWfBjElJuvn7BZx+lSz/SvFrDF/z8": {"body": "AwogGJ", "type": 0}})}, {}),
}


def real_type(key):
    return key.split("#")[0]


def content_of(r, table, key, p=0.5):
    req, opt = table[key]
    return build(r, req, opt, p)


def message_content(r):
    key = r.choice(sorted(MESSAGE_TYPES))
    req, opt = MESSAGE_TYPES[key]
    c = build(r, req, opt)
    c["msgtype"] = real_type(key)
    rel = r.choice(RELATIONS)
    if r.random() < 0.15:
        # replacement
        c["m.relates_to"] = {"rel_type": "m.replace", "event_id": r.choice(EVENTS)}
        c["m.new_content"] = {"msgtype": "m.text", "body": "edited"}
    elif rel is not None:
        c["m.relates_to"] = rel(r)
    if r.random() < 0.3:
        c["m.mentions"] = MENTIONS(r)
    return c, key


def receipt_content(r):
    out = {}
    for _ in range(r.randint(0, 2)):
        ev = r.choice(EVENTS)
        out[ev] = {r.choice(["m.read", "m.read.private"]):
                   {r.choice(USERS): build(r, {}, {"ts": I(0, 2 ** 40), "thread_id": S("main", "$thr")})}}
    return out


def direct_content(r):
    return {r.choice(USERS): [r.choice(ROOMS) for _ in range(r.randint(0, 2))] for _ in range(r.randint(0, 2))}


def add_unknown_fields(r, obj, depth=2):
    """unknown fields at every object level"""
    if not isinstance(obj, dict) or depth < 0:
        return
    if r.random() < 0.5 and not isinstance(obj, NoExtra):
        obj[r.choice(["org.example.unknown", "zzz_unknown", "x_extra"])] = r.choice([1, "s", None, {"a": [1, {"b": 2}]}, [1, 2]])
    for v in list(obj.values()):
        if isinstance(v, dict):
            add_unknown_fields(r, v, depth - 1)


def envelope(r, etype, content, fmt, state_key=None, redacts=None):
    """fmt: full | sync | stripped | to_device | ephemeral | sync_ephemeral | account"""
    ev = {"type": etype, "content": content}
    if fmt in ("full", "sync"):
        ev["event_id"] = r.choice(EVENTS)
        ev["sender"] = r.choice(USERS)
        ev["origin_server_ts"] = r.randint(0, 2 ** 41)
        if fmt == "full":
            ev["room_id"] = r.choice(ROOMS)
        if r.random() < 0.5:
            # (the age may be negative when server clocks disagree - the spec says so)
            ev["unsigned"] = build(r, {}, {"age": I(-10 ** 6, 10 ** 6), "transaction_id": S("txn1")})
        if state_key is not None:
            ev["state_key"] = state_key
        if redacts is not None:
            ev["redacts"] = redacts
    elif fmt == "stripped":
        ev["sender"] = r.choice(USERS)
        ev["state_key"] = state_key if state_key is not None else ""
    elif fmt == "to_device":
        ev["sender"] = r.choice(USERS)
    elif fmt == "ephemeral":
        ev["room_id"] = r.choice(ROOMS)
    return ev


def redaction_event(r, fmt, target):
    ev = {"type": "m.room.redaction", "content": {}, "event_id": "$redaction:example.org", "sender": r.choice(USERS),
          "origin_server_ts": r.randint(0, 2 ** 41), "redacts": target}
    if fmt == "full":
        ev["room_id"] = r.choice(ROOMS)
    if r.random() < 0.5:
        ev["content"]["reason"] = "spam"
    if r.random() < 0.5:
        ev["content"]["redacts"] = target
    if r.random() < 0.4:
        ev["unsigned"] = {"age": I(-10 ** 6, 10 ** 6)(r)}
    return ev


def variant_name(etype):
    """Rust variant for a known event type: m.room.member -> RoomMember"""
    parts = etype[2:] if etype.startswith("m.") else etype
    out = []
    for seg in parts.replace(".", "_").split("_"):
        out.append(seg[:1].upper() + seg[1:])
    return "".join(out)
