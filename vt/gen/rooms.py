"""Simulated multi-branch room histories for the state-resolution monitors (C06, C07).

A history is a DAG of state events. Every new event picks 1-2 earlier events as prev_events
(so forks and merges arise), takes as its "state before" the reference resolution of the states
after those events, selects its auth events from that state with the reference selection, and is
appended to the state if the reference authorization accepts it. A fraction of events is
deliberately not authorised where it is created, and a fraction of those is nevertheless taken
into the branch's state (a faulty server), so that rejected events and auth differences through
rejected events occur."""
from ..ref import auth as auth_ref
from ..ref import stateres as sr

HS = ["hs1.org", "hs2.org", "hs3.org"]
CREATOR = "@creator:hs1.org"
USERS = [CREATOR, "@alice:hs1.org", "@bob:hs2.org", "@carol:hs3.org", "@dave:hs2.org"]
ROOM = "!room:hs1.org"


class History:
    def __init__(self, rng, version, tie_bias=0.5):
        self.rng = rng
        self.v = version
        self.store = {}
        self.state_after = {}     # event_id -> {key: event_id}
        self.order = []
        self.n = 0
        self.ts = 1000
        self.tie_bias = tie_bias
        self.rejected_at_creation = set()
        # event IDs are globally unique: a per-history tag keeps IDs of different simulated rooms apart
        # (the resolver may legitimately remember facts per event ID across calls)
        self.tag = "%06x" % rng.getrandbits(24)

    # -- construction -------------------------------------------------------
    def _id(self):
        self.n += 1
        # ids differing only in the last character make id tie-breaks matter
        return "$%s%s%d%s:hs1.org" % (self.rng.choice("ab"), self.tag, self.n // 3, self.rng.choice("xyz") + str(self.n % 3))

    def _ts(self):
        r = self.rng.random()
        if r < self.tie_bias:
            return self.ts                      # equal timestamps: ties
        if r < self.tie_bias + 0.1:
            return self.rng.choice([0, 1, 10 ** 12])   # adversarial: far past / far future
        self.ts += self.rng.randint(1, 50)
        return self.ts

    def state_before(self, prevs):
        if not prevs:
            return {}
        sets = [self.state_after[p] for p in prevs]
        if len(sets) == 1:
            return dict(sets[0])
        chains = [sr.auth_chain(self.store, s.values()) for s in sets]
        return sr.resolve(self.v, sets, chains, self.store)

    def add(self, etype, state_key, sender, content, prevs, force_accept=False, auth_override=None):
        before = self.state_before(prevs)
        ev = {"type": etype, "state_key": state_key, "sender": sender, "content": content, "event_id": self._id(),
              "room_id": ROOM, "origin_server_ts": self._ts(), "prev_events": list(prevs), "auth_events": []}
        try:
            needed = auth_ref.auth_types(self.v, ev)
        except auth_ref.Malformed:
            needed = set()
        ev["auth_events"] = sorted(before[k] for k in needed if k in before) if auth_override is None else auth_override
        auth_state = {k: self.store[i] for k, i in before.items()}
        ok, rule = auth_ref.auth_check(self.v, ev, auth_state)
        self.store[ev["event_id"]] = ev
        after = dict(before)
        if ok or force_accept:
            after[(etype, state_key)] = ev["event_id"]
        if not ok:
            self.rejected_at_creation.add(ev["event_id"])
        self.state_after[ev["event_id"]] = after
        self.order.append(ev["event_id"])
        return ev, ok

    def bootstrap(self, with_power_levels=True):
        c = {"room_version": str(self.v)}
        if self.v <= 10:
            c["creator"] = CREATOR
        create, _ = self.add("m.room.create", "", CREATOR, c, [])
        create["prev_events"] = []
        last = create["event_id"]
        ev, _ = self.add("m.room.member", CREATOR, CREATOR, {"membership": "join"}, [last])
        last = ev["event_id"]
        if with_power_levels:
            ev, _ = self.add("m.room.power_levels", "", CREATOR,
                             {"users": {CREATOR: 100, USERS[1]: 50}, "users_default": 0, "state_default": 50, "events_default": 0,
                              "ban": 50, "kick": 50, "invite": 0, "events": {"m.room.topic": 0}}, [last])
            last = ev["event_id"]
        ev, _ = self.add("m.room.join_rules", "", CREATOR, {"join_rule": "public"}, [last])
        last = ev["event_id"]
        for u in USERS[1:4]:
            ev, _ = self.add("m.room.member", u, u, {"membership": "join"}, [last])
            last = ev["event_id"]
        return last

    def pick_prevs(self):
        recent = self.order[-8:]
        n = 1 if self.rng.random() < 0.6 else 2
        return sorted(set(self.rng.sample(recent, min(n, len(recent)))))

    def random_event(self):
        rng = self.rng
        prevs = self.pick_prevs()
        before = self.state_before(prevs)
        members = {k[1]: self.store[i]["content"].get("membership") for k, i in before.items() if k[0] == "m.room.member"}
        joined = [u for u, m in members.items() if m == "join"] or [CREATOR]
        r = rng.random()
        bad = rng.random() < 0.12          # deliberately unauthorised where created
        force = bad and rng.random() < 0.4
        if r < 0.25:
            # power-level change: promote / demote / change thresholds
            pl_id = before.get(("m.room.power_levels", ""))
            cur = dict(self.store[pl_id]["content"]) if pl_id else {"users": {CREATOR: 100}}
            cur["users"] = dict(cur.get("users", {}))
            sender = rng.choice(USERS[2:]) if bad else rng.choice([u for u in joined if cur["users"].get(u, cur.get("users_default", 0)) >= 50] or [CREATOR])
            target = rng.choice(USERS[1:])
            q = rng.random()
            if q < 0.5:
                cur["users"][target] = rng.choice([0, 25, 50, 50, 75])
            elif q < 0.7:
                cur["users"].pop(target, None)
            elif q < 0.85:
                cur[rng.choice(["ban", "kick", "invite", "state_default", "events_default"])] = rng.choice([0, 25, 50, 75])
            else:
                cur["events"] = dict(cur.get("events", {}), **{rng.choice(["m.room.topic", "m.room.name"]): rng.choice([0, 50, 75])})
            return self.add("m.room.power_levels", "", sender, cur, prevs, force_accept=force)
        if r < 0.55:
            # membership: join / leave / ban / kick / invite
            actor = rng.choice(USERS)
            q = rng.random()
            if q < 0.3:
                c = {"membership": "join"}
                if rng.random() < 0.25:
                    # a (possibly unjustified) restricted join vouched for by some user
                    c["join_authorised_via_users_server"] = rng.choice(joined if rng.random() < 0.8 else USERS)
                return self.add("m.room.member", actor, actor, c, prevs, force_accept=force)
            if q < 0.42:
                return self.add("m.room.member", actor, actor, {"membership": "leave"}, prevs, force_accept=force)
            if q < 0.5:
                return self.add("m.room.member", actor, actor, {"membership": "knock"}, prevs, force_accept=force)
            target = rng.choice([u for u in USERS if u != actor])
            m = "ban" if q < 0.75 else ("leave" if q < 0.9 else "invite")
            return self.add("m.room.member", target, actor, {"membership": m}, prevs, force_accept=force)
        if r < 0.65:
            sender = rng.choice(USERS) if bad else rng.choice(joined)
            jr = rng.choice(["public", "invite", "knock", "knock", "restricted", "knock_restricted"])
            c = {"join_rule": jr}
            if jr in ("restricted", "knock_restricted"):
                c["allow"] = [{"type": "m.room_membership", "room_id": "!other:hs1.org"}]
            return self.add("m.room.join_rules", "", sender, c, prevs, force_accept=force)
        etype = rng.choice(["m.room.topic", "m.room.name", "m.room.topic"])
        sender = rng.choice(USERS) if bad else rng.choice(joined)
        return self.add(etype, "", sender, {etype.split(".")[-1]: "v%d" % self.n}, prevs, force_accept=force)

    # -- inputs for a merge ---------------------------------------------------
    def merge_input(self, nodes):
        sets = [self.state_after[n] for n in nodes]
        chains = [sorted(sr.auth_chain(self.store, s.values())) for s in sets]
        return sets, chains


def generate(rng, version, n_events, with_power_levels=True, tie_bias=0.5):
    h = History(rng, version, tie_bias)
    h.bootstrap(with_power_levels)
    for _ in range(n_events):
        h.random_event()
    return h
