"""Identifier string generators: grammar-derived valid identifiers, single-edit mutants, length
ladders around 255/256 and 511/512 bytes, exhaustive short strings over a structural alphabet."""
import itertools

from . import jsongen

SERVERS_GOOD = ["example.org", "a", "matrix.org:8448", "1.2.3.4", "1.2.3.4:1", "[::1]", "[::1]:8448",
                "[1234:5678::abcd]:5678", "a-b.c-d.e", "localhost:65535", "x.y:0", "A.B.C",
                "xn--bcher-kva.example", "0.0.0.0", "255.255.255.255:99", "[2001:db8::ff00:42:8329]",
                "a.b:00080", "..", "-", "9"]
SERVERS_BAD = ["", ":80", "a:", "a:+80", "a:-1", "a:000080", "a:65536", "a:99999", "a:123456",
               "a:8o", "a: 80", "[::1", "::1", "[::1]80", "[::1]:", "[]", "[:::]", "[g::1]", "a_b",
               "a b", "a/b", "é.org", "a:80:90", "[::1]:+1", "a\x00", "[1.2.3.4]", "a..b:",
               "[::1]]", "[[::1]]", "ex@mple", "a:0x50", "a:８０", "a:80 ", " a", "[::1%eth0]"]
LOCALPARTS = ["alice", "a", "bob.smith", "x=y", "a/b", "a+b", "_", "-", "0", "carl_1-2.3=4/5+6",
              "Alice", "a!b", "A~{}|", "", "τ", "a\x00b", "a b", "\U0001f600", "a%41", "a#b", "a?b"]
ALIAS_LOCAL = ["room", "a", "", "Ünïcode", "with space", "#double", "a%2Fb", "a/b", "a?b=c", "\U0001f600",
               "a\x00"]
OPAQUE = ["n8f893n9", "abc", "A1b2", "a.b_c~d-e", "", "with space", "é", "a/b", "a%"]
HASHES = ["acR1l0raoZnm60CBwAVgqbZqoO/mYU81xysh1u7XcJk", "Rqnc-F-dvnEYJTyHq_iKxU2bZ1CI92-kuZq3a5lr5Zg",
          "", "short", "a" * 43, "+" * 43]
ALGS = ["ed25519", "curve25519", "signed_curve25519", "custom.alg", "x", "", "ED25519", "a b", "é"]
KEYNAMES = ["1", "abc_1", "auto", "ABCDEFG", "", "a b", "a:b", "é", "a-b", "JLAFKJWSCS", "a+b/c=", "a.b"]
MUT_CHARS = [":", "@", "#", "!", "$", "[", "]", "\x00", " ", "+", "-", ".", "/", "%", "é", "\x7f",
             "\n", "0", "a", "\U0001f600", "_"]
SIGIL = {"user_id": "@", "room_id": "!", "room_alias_id": "#", "room_or_alias_id": "#!",
         "event_id": "$"}


def valid_seeds(t):
    out = []
    if t == "server_name":
        return SERVERS_GOOD + SERVERS_BAD
    if t == "user_id":
        for lp in LOCALPARTS:
            for s in SERVERS_GOOD[:8] + SERVERS_BAD[:12]:
                out.append("@%s:%s" % (lp, s))
        return out
    if t == "room_alias_id":
        for lp in ALIAS_LOCAL:
            for s in SERVERS_GOOD[:8] + SERVERS_BAD[:10]:
                out.append("#%s:%s" % (lp, s))
        return out
    if t == "room_id":
        for lp in OPAQUE:
            for s in SERVERS_GOOD[:8] + SERVERS_BAD[:10]:
                out.append("!%s:%s" % (lp, s))
        return out + ["!" + h for h in HASHES] + ["!", "!:", "!a", "!\x00"]
    if t == "room_or_alias_id":
        return valid_seeds("room_id")[::3] + valid_seeds("room_alias_id")[::3] + ["", "x", "@a:b"]
    if t == "event_id":
        for lp in OPAQUE:
            for s in SERVERS_GOOD[:8] + SERVERS_BAD[:10]:
                out.append("$%s:%s" % (lp, s))
        return out + ["$" + h for h in HASHES] + ["$", "$:", "$a"]
    if t.endswith("key_id"):
        for a in ALGS:
            for k in KEYNAMES:
                out.append("%s:%s" % (a, k))
        return out + ["nocolon", ":", "::", "a:", ":a"]
    if t == "mxc_uri":
        for s in SERVERS_GOOD[:8] + SERVERS_BAD[:10]:
            for m in ["abc", "", "A-b_9", "a/b", "a b", "é", "a.b"]:
                out.append("mxc://%s/%s" % (s, m))
        return out + ["mxc://", "mxc://a", "mxc:/a/b", "http://a/b", "mxc://a/b/c", "", "MXC://a/b"]
    if t == "room_version_id":
        return [str(i) for i in range(0, 14)] + ["org.matrix.msc2870", "", "a" * 32, "a" * 33,
                                                 "é" * 32, "é" * 33, "1.0", "v1", "01", " 1", "1 "]
    return KEYNAMES + ["abc123", "a" * 255, "a" * 256, "", "é", "a.b=c_d-e", "a b", "a/b", "a+b",
                       "\x00", "AAAA+/=="]


def mutants(s, rng, limit=60):
    out = []
    n = len(s)
    positions = list(range(n + 1))
    if len(positions) > 24:
        positions = sorted(rng.sample(positions, 24))
    for i in positions:
        c = rng.choice(MUT_CHARS)
        out.append(s[:i] + c + s[i:])               # insert
        if i < n:
            out.append(s[:i] + s[i + 1:])           # delete
            out.append(s[:i] + c + s[i + 1:])       # replace
            out.append(s[:i] + s[i] + s[i:])        # duplicate
    if len(out) > limit:
        out = rng.sample(out, limit)
    return out


def ladder(t):
    """Boundary lengths with the separator placed around byte 255/256 and 511/512."""
    out = []
    fill = ["a", "é", "\U0001f600"]
    if t in SIGIL:
        sig = SIGIL[t][0]
        for total in list(range(250, 262)) + list(range(508, 516)):
            for f in fill:
                w = len(f.encode())
                # sigil + localpart + ":x.org"
                room = total - 1 - len(":x.org")
                if room > 0:
                    out.append(sig + f * (room // w) + "b" * (room % w) + ":x.org")
                # long server part
                room = total - len(sig + "a:")
                if room > 0 and f == "a":
                    out.append(sig + "a:" + "s" * room)
                # no colon at all (hash style)
                out.append(sig + f * ((total - 1) // w) + "b" * ((total - 1) % w))
        # colon exactly at indexes 254..258
        for idx in range(252, 260):
            out.append(sig + "a" * (idx - 1) + ":b")
        if t == "room_or_alias_id":
            out += ["!" + x[1:] for x in out[:40]]
    elif t.endswith("key_id"):
        for idx in list(range(252, 262)) + list(range(510, 516)):
            for name in ["k", "é", "", "kk:x", "\U0001f600x"]:
                out.append("a" * idx + ":" + name)
                out.append("é" * (idx // 2) + "b" * (idx % 2) + ":" + name)
        for total in range(250, 262):
            out.append("ed25519:" + "k" * (total - 8))
    elif t == "mxc_uri":
        for n in list(range(244, 262)) + list(range(500, 520)):
            out.append("mxc://" + "a" * n + "/media")
            out.append("mxc://" + "a" * n + "/")
            out.append("mxc://" + "a." * (n // 2) + "b" * (n % 2) + ":80/x")
            out.append("mxc://x/" + "m" * n)
    elif t == "server_name":
        for n in range(248, 262):
            out.append("a" * n)
            out.append("a" * n + ":80")
            out.append("[::1]:" + "0" * (n - 6))
    else:
        for n in list(range(28, 36)) + list(range(250, 262)):
            out.append("a" * n)
            out.append("é" * (n // 2) + "b" * (n % 2))
            out.append("1" * n)
    return out


def short_exhaustive(t, maxlen):
    if t in SIGIL:
        alpha = [SIGIL[t][0], ":", "[", "]", "a", "1", "."]
    elif t.endswith("key_id"):
        alpha = [":", "a", "_", "é", "+", " "]
    elif t == "server_name":
        alpha = [":", "[", "]", "a", "1", ".", "-", "+"]
    elif t == "mxc_uri":
        return []
    else:
        alpha = ["a", "1", ".", "_", " ", "é"]
    out = []
    for n in range(0, maxlen + 1):
        for tup in itertools.product(alpha, repeat=n):
            out.append("".join(tup))
    if t == "server_name":
        return out
    if t in SIGIL:
        # the sigil-less strings are all trivially rejected; keep them only up to length 3
        return [x for x in out if x.startswith(SIGIL[t][0]) or len(x) <= 3]
    return out


def random_unicode(rng, n):
    return [jsongen.rand_string(rng, rng.randint(1, 20)) for _ in range(n)]
