"""JSON value ASTs and text renderers with spelling variation.

AST: None, bool, int, str, list, dict (Python values) plus BadNum(text) for number spellings that
Matrix canonical JSON cannot represent. The AST is the ground truth; texts are rendered from it.
"""
import json

MAXI = 2 ** 53 - 1


class BadNum:
    """A JSON number token that canonical JSON must reject (kept as its source text)."""

    def __init__(self, text):
        self.text = text

    def __repr__(self):
        return "BadNum(%s)" % self.text

    def __eq__(self, o):
        return isinstance(o, BadNum) and o.text == self.text

    def __hash__(self):
        return hash(self.text)


BOUNDARY_INTS = [0, 1, -1, 2, 10, 127, 255, 256, 65535, 2 ** 31 - 1, 2 ** 31, -(2 ** 31), 2 ** 32,
                 MAXI, -MAXI, MAXI - 1, -(MAXI - 1), 2 ** 52, 4503599627370497, 1234567890123456]
BAD_NUMS = ["9007199254740992", "-9007199254740992", "9007199254740993", "-9007199254740993",
            "9223372036854775807", "-9223372036854775808", "9223372036854775808",
            "18446744073709551615", "18446744073709551616", "-9223372036854775809",
            "123456789012345678901234567890", "-0", "-0.0", "0.0", "1.0", "1.5", "-1.5", "1e2",
            "1E+2", "1e0", "0e0", "1e-2", "2.5e3", "1e400", "-1e400", "1e15", "9007199254740991.0",
            "0.1", "1E2", "3.141592653589793"]

BOUNDARY_CHARS = (
    [chr(c) for c in range(0, 0x20)] + ["\x7f", '"', "\\", "/", " ", "a", "Z", "0", "~",
                                        "\u0080", "\u00e9", "\u07ff", "\u0800", "\u2028",
                                        "\u2029", "\ud7ff", "\ue000", "\ufffd", "\uffff",
                                        "\U00010000", "\U0001f600", "\U0010ffff", "\ufeff",
                                        "\u0301"])
TRICKY_KEYS = ["", "a", "b", "aa", "ab", "a\u0000", "A", "\ue000", "\U00010000", "\uffff",
               "\u00e9", "e\u0301", "1", "10", "2", "\"", "\\", "/", "signatures", "unsigned",
               "\u0080", "\x7f", "\x1f", " ", "a b", "\U0001f600", "\ud7ff", "hashes"]

SHORT = {'"': '\\"', "\\": "\\\\", "\n": "\\n", "\r": "\\r", "\t": "\\t", "\b": "\\b",
         "\f": "\\f"}


def rand_string(rng, maxlen=8):
    r = rng.random()
    if r < 0.15:
        return ""
    n = rng.randint(1, maxlen)
    out = []
    for _ in range(n):
        q = rng.random()
        if q < 0.45:
            out.append(rng.choice(BOUNDARY_CHARS))
        elif q < 0.8:
            out.append(rng.choice("abcdefghijklmnopqrstuvwxyzABCXYZ0123456789_-.:@!#$ "))
        else:
            cp = rng.choice([rng.randint(0x20, 0x7e), rng.randint(0x80, 0x7ff),
                             rng.randint(0x800, 0xd7ff), rng.randint(0xe000, 0xffff),
                             rng.randint(0x10000, 0x10ffff)])
            out.append(chr(cp))
    return "".join(out)


def rand_key(rng):
    if rng.random() < 0.45:
        return rng.choice(TRICKY_KEYS)
    return rand_string(rng, 5)


def rand_int(rng):
    r = rng.random()
    if r < 0.5:
        return rng.choice(BOUNDARY_INTS)
    if r < 0.8:
        return rng.randint(-1000, 1000)
    return rng.randint(-MAXI, MAXI)


def rand_value(rng, depth=4, width=5, bad=0.0):
    """Random AST. `bad` = probability that a number leaf is a BadNum."""
    r = rng.random()
    if depth <= 0 or r < 0.45:
        q = rng.random()
        if q < 0.35:
            if bad and rng.random() < bad:
                return BadNum(rng.choice(BAD_NUMS))
            return rand_int(rng)
        if q < 0.75:
            return rand_string(rng)
        if q < 0.85:
            return rng.choice([True, False])
        if q < 0.92:
            return None
        return rng.choice([[], {}])
    if r < 0.7:
        return [rand_value(rng, depth - 1, width, bad) for _ in range(rng.randint(0, width))]
    d = {}
    for _ in range(rng.randint(0, width)):
        d[rand_key(rng)] = rand_value(rng, depth - 1, width, bad)
    return d


def rand_object(rng, depth=4, width=6, bad=0.0):
    d = {}
    for _ in range(rng.randint(1, width)):
        d[rand_key(rng)] = rand_value(rng, depth - 1, width, bad)
    return d


def contains_bad(v):
    if isinstance(v, BadNum):
        return True
    if isinstance(v, list):
        return any(contains_bad(x) for x in v)
    if isinstance(v, dict):
        return any(contains_bad(x) for x in v.values())
    return False


def is_nontrivial(v):
    """object with >= 2 keys, a non-ASCII / escaped character or a boundary number somewhere."""
    if isinstance(v, dict):
        if len(v) >= 2:
            return True
        return any(is_nontrivial(k) or is_nontrivial(x) for k, x in v.items())
    if isinstance(v, list):
        return any(is_nontrivial(x) for x in v)
    if isinstance(v, str):
        return any(ord(c) < 0x20 or ord(c) > 0x7e or c in '"\\' for c in v)
    if isinstance(v, bool) or v is None:
        return False
    if isinstance(v, int):
        return abs(v) >= 2 ** 31
    return isinstance(v, BadNum)


# ---------------------------------------------------------------------------
# rendering

def render_string(s, rng=None, style=None):
    """Render a str as a JSON string token. rng=None: plain minimal spelling."""
    out = ['"']
    for ch in s:
        cp = ord(ch)
        choices = []
        if cp >= 0x20 and ch not in '"\\':
            choices.append(ch)
        if ch in SHORT:
            choices.append(SHORT[ch])
        if ch == "/":
            choices.append("\\/")
        if cp < 0x10000:
            choices.append("\\u%04x" % cp)
            choices.append("\\u%04X" % cp)
        else:
            c = cp - 0x10000
            hi, lo = 0xd800 + (c >> 10), 0xdc00 + (c & 0x3ff)
            choices.append("\\u%04x\\u%04x" % (hi, lo))
            choices.append("\\u%04X\\u%04x" % (hi, lo))
        if rng is None:
            out.append(choices[0])
        elif style == "escape_all":
            out.append(choices[-1])
        else:
            # mostly the plain spelling, sometimes an alternative
            out.append(choices[0] if rng.random() < 0.6 else rng.choice(choices))
    out.append('"')
    return "".join(out)


def _ws(rng):
    if rng is None:
        return ""
    r = rng.random()
    if r < 0.6:
        return ""
    return rng.choice([" ", "  ", "\n", "\t", "\r\n", " \n\t "])


def render(v, rng=None, shuffle=True, dups=False, style=None):
    """Render an AST to JSON text. With rng: random key order, whitespace, escape spellings and
    (dups=True) duplicate keys whose *earlier* occurrences carry junk values (last one wins)."""
    if v is None:
        return "null"
    if v is True:
        return "true"
    if v is False:
        return "false"
    if isinstance(v, BadNum):
        return v.text
    if isinstance(v, int):
        return str(v)
    if isinstance(v, str):
        return render_string(v, rng, style)
    if isinstance(v, list):
        items = [_ws(rng) + render(x, rng, shuffle, dups, style) + _ws(rng) for x in v]
        return "[" + ",".join(items) + "]" if items else "[" + _ws(rng) + "]"
    if isinstance(v, dict):
        keys = list(v.keys())
        if rng is not None and shuffle:
            rng.shuffle(keys)
        entries = [(k, render(v[k], rng, shuffle, dups, style)) for k in keys]
        if rng is not None and dups and keys and rng.random() < 0.5:
            # earlier duplicates with junk values
            for _ in range(rng.randint(1, 2)):
                k = rng.choice(keys)
                first = min(i for i, e in enumerate(entries) if e[0] == k)
                pos = rng.randint(0, first)
                junk = rng.choice(['"junk"', "0", "null", "[1,2]", '{"z":1}', "true"])
                entries.insert(pos, (k, junk))
        parts = []
        for k, txt in entries:
            parts.append(_ws(rng) + render_string(k, rng, style) + _ws(rng) + ":" + _ws(rng)
                         + txt + _ws(rng))
        return "{" + ",".join(parts) + "}" if parts else "{" + _ws(rng) + "}"
    raise TypeError(type(v))


def loads_strict(text):
    """Python parse of a rendered text (BadNum-free), used to cross-check the renderer."""
    return json.loads(text)
