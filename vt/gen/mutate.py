"""Byte-, character- and structure-level mutators for the C17 (never panic/abort/hang) monitor."""
import copy
import json

NUMS = ["1e400", "-1e400", "1e-400", "9007199254740992", "-9007199254740993", "18446744073709551616", "1.5", "-0", "0.0",
        "1E2", "123456789012345678901234567890", "-1", "4294967296", "65536", "255", "256", "2147483648"]
STRS = ["", " ", "\x00", "a" * 254, "a" * 255, "a" * 256, "a" * 257, "é" * 128, "\U0001f600", ":", "@", "$", "!", "#", "/", "%", "%zz",
        "\\", "\"", "\n", "null", "true", "{}", "[]", "m.room.member", "@a:b", "$e", "!r:x", "*", "?", "a**", "x" * 65536]


def structural(rng, v, depth=0):
    """mutate one place of a JSON-like value; numbers may become raw tokens via the RawNum marker"""
    v = copy.deepcopy(v)
    paths = []

    def walk(x, p):
        paths.append(p)
        if isinstance(x, dict):
            for k in x:
                walk(x[k], p + [k])
        elif isinstance(x, list):
            for i in range(len(x)):
                walk(x[i], p + [i])
    walk(v, [])
    p = rng.choice(paths)
    if not p:
        return rng.choice([[], {}, None, 1, "s", [v], {"x": v}])
    parent = v
    for k in p[:-1]:
        parent = parent[k]
    k = p[-1]
    r = rng.random()
    if r < 0.2:
        if isinstance(parent, dict):
            del parent[k]
        else:
            parent.pop(k)
    elif r < 0.45:
        parent[k] = rng.choice([None, True, 0, -1, 1.5, "", "s", [], {}, [[]], {"a": {}}, [1, "x", None]])
    elif r < 0.6:
        parent[k] = RawNum(rng.choice(NUMS))
    elif r < 0.8:
        parent[k] = rng.choice(STRS)
    elif r < 0.9:
        if isinstance(parent, dict):
            parent[rng.choice(STRS[:12] + ["type", "content", "sender", "state_key", "event_id"])] = parent[k]
        else:
            parent.append(parent[k])
    else:
        x = parent[k]
        for _ in range(rng.choice([1, 2, 5, 30])):
            x = [x] if rng.random() < 0.5 else {"n": x}
        parent[k] = x
    return v


class RawNum:
    def __init__(self, text):
        self.text = text


def dumps(v):
    """json.dumps with RawNum tokens spliced in"""
    marks = {}

    def enc(x):
        if isinstance(x, RawNum):
            key = "\u0001RAWNUM%d\u0001" % len(marks)
            marks[key] = x.text
            return key
        if isinstance(x, dict):
            return {str(k): enc(val) for k, val in x.items()}
        if isinstance(x, list):
            return [enc(i) for i in x]
        return x
    s = json.dumps(enc(v), ensure_ascii=False)
    for k, t in marks.items():
        s = s.replace(json.dumps(k, ensure_ascii=False), t)
    return s


def textual(rng, s):
    """character-level mutation of a text"""
    n = len(s)
    if n == 0:
        return rng.choice(STRS)
    r = rng.random()
    i = rng.randrange(n)
    j = min(n, i + rng.choice([1, 1, 2, 5, 20]))
    if r < 0.25:
        return s[:i] + s[j:]
    if r < 0.5:
        return s[:i] + rng.choice(["\"", "\\", "{", "}", "[", "]", ":", ",", "\x00", "é", "\U0001f600", "%", "/", "<", ">", "&", "1e400", " "]) + s[i:]
    if r < 0.65:
        return s[:i] + s[i:j] * rng.choice([2, 3, 50]) + s[j:]
    if r < 0.8:
        return s[:i]
    if r < 0.9:
        return s[:i] + rng.choice(STRS) + s[j:]
    return s[j:] + s[:i]


def deep_json(kind, n):
    if kind == "array":
        return "[" * n + "]" * n
    if kind == "object":
        return "{\"a\":" * n + "1" + "}" * n
    return "{\"content\":" + "{\"a\":" * n + "1" + "}" * n + ",\"type\":\"m.room.message\"}"


def bytes_mut(rng, b):
    b = bytearray(b)
    r = rng.random()
    if not b:
        return bytes([rng.randrange(256)])
    i = rng.randrange(len(b))
    if r < 0.3:
        b[i] ^= 1 << rng.randrange(8)
    elif r < 0.5:
        del b[i:i + rng.choice([1, 2, 8])]
    elif r < 0.7:
        b[i:i] = bytes(rng.randrange(256) for _ in range(rng.choice([1, 2, 4])))
    elif r < 0.85:
        b[i:i] = bytes.fromhex("a1230321")
    else:
        b = b[:i]
    return bytes(b)
