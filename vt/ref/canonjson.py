"""Reference encoder for Matrix canonical JSON: the specification's own definition
(`json.dumps(..., ensure_ascii=False, separators=(',',':'), sort_keys=True)` encoded as UTF-8).
Python compares str by code point, which is the spec's key order."""
import json

MAXI = 2 ** 53 - 1


def representable(v):
    if v is None or isinstance(v, (bool, str)):
        return True
    if isinstance(v, int):
        return -MAXI <= v <= MAXI
    if isinstance(v, float):
        return False
    if isinstance(v, list):
        return all(representable(x) for x in v)
    if isinstance(v, dict):
        return all(isinstance(k, str) and representable(x) for k, x in v.items())
    return False


def encode(v):
    if not representable(v):
        raise ValueError("not representable in canonical JSON")
    return json.dumps(v, ensure_ascii=False, separators=(",", ":"), sort_keys=True).encode("utf-8")


def encode_str(v):
    return encode(v).decode("utf-8")


def without(obj, fields):
    return {k: v for k, v in obj.items() if k not in fields}


def selftest():
    # examples from the Matrix specification (appendices, "Canonical JSON")
    cases = [
        ({}, b"{}"),
        ({"one": 1, "two": "Two"}, b'{"one":1,"two":"Two"}'),
        ({"b": "2", "a": "1"}, b'{"a":"1","b":"2"}'),
        ({"auth": {"success": True, "mxid": "@john.doe:example.com", "profile": {
            "display_name": "John Doe", "three_pids": [
                {"medium": "email", "address": "john.doe@example.org"},
                {"medium": "msisdn", "address": "123456789"}]}}},
         b'{"auth":{"mxid":"@john.doe:example.com","profile":{"display_name":"John Doe",'
         b'"three_pids":[{"address":"john.doe@example.org","medium":"email"},'
         b'{"address":"123456789","medium":"msisdn"}]},"success":true}}'),
        ({"a": "日本語"}, b'{"a":"\xe6\x97\xa5\xe6\x9c\xac\xe8\xaa\x9e"}'),
        ({"本": 2, "日": 1}, b'{"\xe6\x97\xa5":1,"\xe6\x9c\xac":2}'),
        ({"a": "日"}, b'{"a":"\xe6\x97\xa5"}'),
        ({"a": None}, b'{"a":null}'),
        ({"a": -0, "b": 1e10}, None),
    ]
    for v, want in cases:
        if want is None:
            try:
                encode(v)
            except ValueError:
                continue
            raise AssertionError("should be unrepresentable: %r" % (v,))
        got = encode(v)
        assert got == want, (got, want)
    # code point order differs from UTF-16 order for U+E000 vs U+10000
    assert encode({"\U00010000": 1, "": 2}) == '{"":2,"\U00010000":1}'.encode()
    assert encode("\x00\x1f\x7f\"\\/\n") == b'"\\u0000\\u001f\x7f\\"\\\\/\\n"'
    return True
