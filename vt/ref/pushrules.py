"""Reference push rule evaluation (client-server spec "Push rules"): event flattening with
escaped dot paths, conditions, first-matching-enabled-rule selection in kind order."""
from . import glob

MAXI = 2 ** 53 - 1
KIND_ORDER = ["override", "content", "room", "sender", "underride"]
LEGACY_MENTION_RULES = {".m.rule.contains_display_name", ".m.rule.roomnotif",
                        ".m.rule.contains_user_name"}
EMPTY_OBJECT = ("<empty object>",)


def escape_key(k):
    return k.replace("\\", "\\\\").replace(".", "\\.")


def scalar_ok(v):
    if v is None or isinstance(v, (bool, str)):
        return True
    return isinstance(v, int) and -MAXI <= v <= MAXI


def flatten(value, path="", out=None):
    """dict path -> leaf; leaves: str/int/bool/None, list of scalars (non-scalars dropped),
    EMPTY_OBJECT. Unrepresentable numbers (floats, out-of-range ints) are dropped."""
    if out is None:
        out = {}
    if isinstance(value, dict):
        if not value:
            out[path] = EMPTY_OBJECT
        for k, v in value.items():
            flatten(v, escape_key(k) if path == "" else path + "." + escape_key(k), out)
    elif isinstance(value, list):
        out[path] = [x for x in value if scalar_ok(x)]
    elif scalar_ok(value):
        out[path] = value
    return out


def get_str(flat, path):
    v = flat.get(path)
    return v if isinstance(v, str) else None


def same_scalar(a, b):
    return type(a) is type(b) and a == b


def member_count_is(spec, count):
    for op in ("<=", ">=", "==", "<", ">"):
        if spec.startswith(op):
            n = int(spec[len(op):])
            return {"<=": count <= n, ">=": count >= n, "==": count == n, "<": count < n,
                    ">": count > n}[op]
    return count == int(spec)


def condition(cond, flat, ctx, strict):
    """strict selects the word-boundary reading (see glob.word_match)."""
    k = cond["kind"]
    if k == "event_match":
        key = cond["key"]
        val = ctx["room_id"] if key == "room_id" else get_str(flat, key)
        if val is None:
            return False
        if key == "content.body":
            return glob.word_match(cond["pattern"], val, strict)
        return glob.glob_match(cond["pattern"], val)
    if k == "contains_display_name":
        body = get_str(flat, "content.body")
        if body is None:
            return False
        return glob.word_match(ctx["user_display_name"], body, strict)
    if k == "room_member_count":
        return member_count_is(cond["is"], ctx["member_count"])
    if k == "sender_notification_permission":
        pl = ctx.get("power_levels")
        sender = get_str(flat, "sender")
        if pl is None or sender is None:
            return False
        # the power of "the sender": without a sender that is a user ID there is nobody whose power
        # could suffice (callers only feed clearly valid / clearly invalid values)
        if not (sender.startswith("@") and ":" in sender[1:] and not sender.endswith(":")):
            return False
        level = pl.get("users", {}).get(sender, pl.get("users_default", 0))
        if cond["key"] != "room":
            return False
        return level >= pl.get("notifications_room", 50)
    if k == "event_property_is":
        v = flat.get(cond["key"], KeyError)
        return v is not KeyError and not isinstance(v, (list, tuple)) and same_scalar(v, cond["value"])
    if k == "event_property_contains":
        v = flat.get(cond["key"])
        return isinstance(v, list) and any(same_scalar(x, cond["value"]) for x in v)
    return False


def has_mentions(flat):
    p = "content.m\\.mentions"
    return any(k == p or k.startswith(p + ".") for k in flat)


def rule_applies(kind, rule, flat, ctx, strict, id_glob=False):
    if not rule["enabled"]:
        return False
    if rule["rule_id"] in LEGACY_MENTION_RULES and has_mentions(flat):
        return False
    if kind in ("override", "underride"):
        return all(condition(c, flat, ctx, strict) for c in rule.get("conditions", []))
    if kind == "content":
        return condition({"kind": "event_match", "key": "content.body", "pattern": rule["pattern"]},
                         flat, ctx, strict)
    # room / sender rules: "the rule_id is the room ID / user ID it affects". Read literally that is
    # equality; implementations evaluate it as an implicit event_match condition, i.e. as a
    # case-insensitive glob (id_glob=True). The readings differ only for ids that are not identical.
    if kind == "room":
        if id_glob:
            return glob.glob_match(rule["rule_id"].lower(), ctx["room_id"].lower())
        return rule["rule_id"] == ctx["room_id"]
    if kind == "sender":
        sender = get_str(flat, "sender")
        if id_glob and sender is not None:
            return glob.glob_match(rule["rule_id"].lower(), sender.lower())
        return rule["rule_id"] == sender
    return False


def get_match(ruleset, event, ctx, strict, id_glob=False):
    flat = flatten(event)
    if get_str(flat, "sender") == ctx["user_id"]:
        return None
    for kind in KIND_ORDER:
        for rule in ruleset.get(kind, []):
            if rule_applies(kind, rule, flat, ctx, strict, id_glob):
                return (kind, rule["rule_id"])
    return None


def selftest():
    f = flatten({"a": {"b.c": 1, "d": [1, "x", {}, 1.5], "e": {}}, "f": 1.5, "g\\h": None})
    assert f == {"a.b\\.c": 1, "a.d": [1, "x"], "a.e": EMPTY_OBJECT, "g\\\\h": None}, f
    assert member_count_is("<=2", 2) and not member_count_is("<2", 2) and member_count_is("2", 2)
    rs = {"override": [{"rule_id": "o", "enabled": False, "conditions": []}],
          "content": [{"rule_id": "c", "enabled": True, "pattern": "foo"}],
          "underride": [{"rule_id": "u", "enabled": True, "conditions": []}]}
    ctx = {"room_id": "!r:x", "user_id": "@me:x", "user_display_name": "me", "member_count": 2}
    ev = {"sender": "@a:x", "content": {"body": "a foo b"}}
    assert get_match(rs, ev, ctx, True) == ("content", "c")
    assert get_match(rs, dict(ev, sender="@me:x"), ctx, True) is None
    assert get_match(rs, {"sender": "@a:x", "content": {"body": "x"}}, ctx, True) == ("underride", "u")
    return True
