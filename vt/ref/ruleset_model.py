"""Reference model of push ruleset edits: the documented placement semantics of
Ruleset::{insert, remove, set_enabled, set_actions} (ruma docs + client-server spec PUT pushrules
before/after semantics). A kind's rules are a Python list of dicts {id, enabled, default, actions}.

apply(rules, op) returns a list of acceptable outcomes [(status, new_rules)], status in
{'ok','err'}, or None when the operation's effect is unspecified (anchor == the rule itself):
then only "no panic" and "error => unchanged" are demanded.
"""
import copy

MASTER = ".m.rule.master"
KINDS = ["override", "content", "room", "sender", "underride"]


def ids(rules):
    return [r["id"] for r in rules]


def apply(kind, rules, op):
    name = op["op"]
    rid = op["rule_id"]
    cur = ids(rules)
    if name == "insert":
        after, before = op.get("after"), op.get("before")
        if rid.startswith(".") or "/" in rid or "\\" in rid:
            return [("err", rules)]
        if (after is not None and after.startswith(".")) or \
                (before is not None and before.startswith(".")):
            return [("err", rules)]
        if after == rid or before == rid:
            return None
        for a in (after, before):
            if a is not None and a not in cur:
                return [("err", rules)]
        exists = rid in cur
        rest = [r for r in rules if r["id"] != rid]
        rest_ids = ids(rest)
        new = {"id": rid, "enabled": rules[cur.index(rid)]["enabled"] if exists else True,
               "default": False, "actions": op.get("actions", ["notify"])}
        if kind == "content":
            new["pattern"] = op.get("pattern", "pat")      # a replacement carries the new rule's pattern
        if after is not None and before is not None:
            ia, ib = rest_ids.index(after), rest_ids.index(before)
            if ib <= ia:
                return [("err", rules)]
            positions = [ib]
        elif before is not None:
            positions = [rest_ids.index(before)]
        elif after is not None:
            positions = [rest_ids.index(after) + 1]
        elif exists:
            positions = [cur.index(rid)]
        elif kind == "override":
            # "second after the master rule"; without a master rule in first place the docs do
            # not say whether 'most important' (0) or 'second' (1) applies: both accepted
            if rest_ids and rest_ids[0] == MASTER:
                positions = [1]
            else:
                positions = sorted({0, min(1, len(rest))})
        else:
            positions = [0]
        out = []
        for p in positions:
            lst = copy.deepcopy(rest)
            lst.insert(p, copy.deepcopy(new))
            out.append(("ok", lst))
        return out
    if rid not in cur:
        return [("err", rules)]
    i = cur.index(rid)
    if name == "remove":
        if rules[i]["default"]:
            return [("err", rules)]
        return [("ok", rules[:i] + rules[i + 1:])]
    lst = copy.deepcopy(rules)
    if name == "set_enabled":
        lst[i]["enabled"] = bool(op.get("enabled", False))
        return [("ok", lst)]
    if name == "set_actions":
        lst[i]["actions"] = op.get("actions", ["notify"])
        return [("ok", lst)]
    raise ValueError(name)


def selftest():
    A = lambda i, e=True: {"id": i, "enabled": e, "default": False, "actions": ["notify"]}
    r = apply("underride", [], {"op": "insert", "rule_id": "a"})
    assert r == [("ok", [A("a")])]
    r = apply("underride", [A("a")], {"op": "insert", "rule_id": "b"})
    assert ids(r[0][1]) == ["b", "a"]
    r = apply("underride", [A("a"), A("b"), A("c")], {"op": "insert", "rule_id": "a", "after": "c"})
    assert ids(r[0][1]) == ["b", "c", "a"]
    r = apply("underride", [A("a"), A("b"), A("c")], {"op": "insert", "rule_id": "a", "before": "c"})
    assert ids(r[0][1]) == ["b", "a", "c"]
    r = apply("underride", [A("a"), A("b"), A("c")], {"op": "insert", "rule_id": "c", "before": "a"})
    assert ids(r[0][1]) == ["c", "a", "b"]
    r = apply("underride", [A("a"), A("b", False)], {"op": "insert", "rule_id": "b", "actions": ["x"]})
    assert ids(r[0][1]) == ["a", "b"] and r[0][1][1]["enabled"] is False and r[0][1][1]["actions"] == ["x"]
    assert apply("override", [A("a")], {"op": "insert", "rule_id": "b", "after": "zz"}) == [("err", [A("a")])]
    assert apply("override", [A("a")], {"op": "insert", "rule_id": ".x"})[0][0] == "err"
    assert apply("override", [A("a"), A("b")], {"op": "insert", "rule_id": "c", "after": "b", "before": "a"})[0][0] == "err"
    assert apply("override", [A("a")], {"op": "insert", "rule_id": "a", "after": "a"}) is None
    m = {"id": MASTER, "enabled": False, "default": True, "actions": []}
    r = apply("override", [m, A("a")], {"op": "insert", "rule_id": "b"})
    assert [ids(x[1]) for x in r] == [[MASTER, "b", "a"]]
    assert apply("override", [m], {"op": "remove", "rule_id": MASTER})[0][0] == "err"
    return True
