"""Reference implementation of Matrix state resolution v2, a direct transcription of the room
version 2+ specification ("State resolution"): unconflicted / conflicted split, auth difference,
full conflicted set, power events and their auth chains inside the conflicted set, reverse
topological power ordering, iterative auth checks, mainline ordering, unconflicted state overlaid
last. Authorization is delegated to vt/ref/auth.py.

Events are dicts (see ref/auth.py); `store` maps event_id -> event."""
import heapq

from . import auth as auth_ref

POWER_TYPES = ("m.room.power_levels", "m.room.join_rules")


def key_of(ev):
    return (ev["type"], ev["state_key"])


def separate(state_sets):
    """-> (unconflicted map, conflicted {key: set(ids)})"""
    n = len(state_sets)
    keys = set()
    for s in state_sets:
        keys |= set(s)
    unconflicted, conflicted = {}, {}
    for k in keys:
        vals = [s.get(k) for s in state_sets]
        if all(v is not None and v == vals[0] for v in vals):
            unconflicted[k] = vals[0]
        else:
            conflicted[k] = {v for v in vals if v is not None}
    return unconflicted, conflicted


def auth_chain(store, ids):
    """full auth chain of a set of events (the events' auth events, recursively; not the events
    themselves)"""
    out = set()
    stack = list(ids)
    while stack:
        e = store.get(stack.pop())
        if e is None:
            continue
        for a in e["auth_events"]:
            if a not in out:
                out.add(a)
                stack.append(a)
    return out


def auth_difference(chains):
    union = set().union(*chains) if chains else set()
    inter = set(chains[0]).intersection(*chains[1:]) if chains else set()
    return union - inter


def is_power_event(ev):
    if ev.get("state_key") is None:
        return False
    if ev["type"] in POWER_TYPES:
        return ev["state_key"] == ""
    if ev["type"] == "m.room.member":
        c = ev["content"]
        if isinstance(c, dict) and c.get("membership") in ("leave", "ban"):
            return ev["sender"] != ev["state_key"]
    return False


def sender_power_level(store, ev, version):
    """power level of the event's sender according to the power-levels event among the event's
    own auth events (creator 100 / others 0 without one)"""
    pl = create = None
    for a in ev["auth_events"]:
        ae = store.get(a)
        if ae is None:
            continue
        if ae["type"] == "m.room.power_levels" and ae.get("state_key") == "":
            pl = ae
        elif ae["type"] == "m.room.create" and ae.get("state_key") == "":
            create = ae
    creator = auth_ref.creator_of(create, version) if create is not None else None
    return auth_ref.Levels(pl, creator, version).user(ev["sender"])


def lexicographical_topological_sort(graph, key_fn):
    """graph: node -> set of nodes it depends on (must come first). Every node once, dependencies
    first, always the minimum ready node under key_fn (then node id)."""
    remaining = {n: set(d) for n, d in graph.items()}
    dependants = {n: set() for n in graph}
    for n, deps in graph.items():
        for d in deps:
            dependants.setdefault(d, set()).add(n)
            remaining.setdefault(d, set())
    heap = [(key_fn(n), n) for n, deps in remaining.items() if not deps]
    heapq.heapify(heap)
    out = []
    while heap:
        _, n = heapq.heappop(heap)
        out.append(n)
        for m in dependants.get(n, ()):
            remaining[m].discard(n)
            if not remaining[m]:
                heapq.heappush(heap, (key_fn(m), m))
    return out


def reverse_topological_power_sort(store, power_ids, full_conflicted, version):
    graph = {}
    stack = list(power_ids)
    while stack:
        eid = stack.pop()
        if eid in graph:
            continue
        graph[eid] = set()
        for a in store[eid]["auth_events"]:
            if a in full_conflicted:
                graph[eid].add(a)
                if a not in graph:
                    stack.append(a)
    def key(eid):
        ev = store[eid]
        return (-sender_power_level(store, ev, version), ev["origin_server_ts"], eid)
    return lexicographical_topological_sort(graph, key)


def iterative_auth_checks(store, order, base_state, version, log=None):
    state = dict(base_state)
    for eid in order:
        ev = store[eid]
        try:
            needed = auth_ref.auth_types(version, ev)
        except auth_ref.Malformed:
            continue
        auth_state = {}
        # entries from the event's own auth_events ...
        for a in ev["auth_events"]:
            ae = store.get(a)
            if ae is not None and ae.get("state_key") is not None:
                auth_state[key_of(ae)] = ae
        # ... replaced by the partial resolved state where it has the needed key
        for k in needed:
            if k in state and state[k] in store:
                auth_state[k] = store[state[k]]
        ok, rule = auth_ref.auth_check(version, ev, auth_state)
        if log is not None:
            log.append((eid, ok, rule))
        if ok:
            state[key_of(ev)] = eid
    return state


def mainline_of(store, pl_id):
    out = []
    while pl_id is not None:
        out.append(pl_id)
        ev = store[pl_id]
        pl_id = None
        for a in ev["auth_events"]:
            ae = store.get(a)
            if ae is not None and ae["type"] == "m.room.power_levels" and ae.get("state_key") == "":
                pl_id = a
                break
    return out


def mainline_sort(store, ids, resolved_pl_id, no_ancestor_first):
    """no_ancestor_first: the one point the spec leaves open - an event with no power-levels
    ancestor on the mainline sorts either before everything (True) or together with the events
    hanging off the oldest mainline event (False)."""
    mainline = mainline_of(store, resolved_pl_id) if resolved_pl_id is not None else []
    pos = {eid: i for i, eid in enumerate(reversed(mainline))}     # oldest = 0

    def depth(eid):
        cur = store[eid]
        seen = set()
        while cur is not None and cur["event_id"] not in seen:
            seen.add(cur["event_id"])
            if cur["event_id"] in pos:
                return pos[cur["event_id"]]
            nxt = None
            for a in cur["auth_events"]:
                ae = store.get(a)
                if ae is not None and ae["type"] == "m.room.power_levels" and ae.get("state_key") == "":
                    nxt = ae
                    break
            cur = nxt
        return -1 if no_ancestor_first else 0
    return sorted(ids, key=lambda e: (depth(e), store[e]["origin_server_ts"], e))


def resolve(version, state_sets, chains, store, no_ancestor_first=False, trace=None):
    unconflicted, conflicted = separate(state_sets)
    if not conflicted:
        return dict(unconflicted)
    full = auth_difference(chains)
    for ids in conflicted.values():
        full |= ids
    full = {e for e in full if e in store}
    power = [e for e in full if is_power_event(store[e])]
    order1 = reverse_topological_power_sort(store, power, full, version)
    log = [] if trace is not None else None
    partial = iterative_auth_checks(store, order1, unconflicted, version, log)
    picked = set(order1)
    rest = [e for e in full if e not in picked]
    order2 = mainline_sort(store, rest, partial.get(("m.room.power_levels", "")), no_ancestor_first)
    resolved = iterative_auth_checks(store, order2, partial, version, log)
    resolved.update(unconflicted)
    if trace is not None:
        trace.update({"conflicted_keys": len(conflicted), "full_conflicted": len(full), "power_events": len(order1),
                      "rejected": [e for e, ok, _ in log if not ok], "order1": order1, "order2": order2})
    return resolved


def selftest():
    # sort: dependencies first, minimum ready node
    g = {"a": set(), "b": {"a"}, "c": {"a"}, "d": {"b", "c"}}
    assert lexicographical_topological_sort(g, lambda n: {"a": 0, "b": 2, "c": 1, "d": 0}[n]) == ["a", "c", "b", "d"]
    u, c = separate([{("t", ""): "x", ("n", ""): "1"}, {("t", ""): "y", ("n", ""): "1"}, {("n", ""): "1"}])
    assert u == {("n", ""): "1"} and c == {("t", ""): {"x", "y"}}
    assert auth_difference([{"a", "b"}, {"a"}, {"a", "c"}]) == {"b", "c"}
    return True
