"""Reference implementations of the spec's JSON/event signing, hashing and verification, built
only on the reference canonical JSON encoder, the reference redaction table, hashlib and the
pure-Python Ed25519."""
import base64
import hashlib

from . import canonjson, ed25519, redact as redact_ref

MAX_PDU = 65535


def b64u(b):
    """unpadded base64, standard alphabet"""
    return base64.b64encode(b).rstrip(b"=").decode()


def b64url_u(b):
    return base64.urlsafe_b64encode(b).rstrip(b"=").decode()


def b64_decode_lenient(s):
    """Matrix 'unpadded base64' as implementations accept it: standard alphabet, padding optional,
    trailing bits ignored. Returns None if undecodable."""
    if not isinstance(s, str):
        return None
    t = s.rstrip("=")
    if len(s) - len(t) > 2:
        return None
    alphabet = set("ABCDEFGHIJKLMNOPQRSTUVWXYZabcdefghijklmnopqrstuvwxyz0123456789+/")
    if any(c not in alphabet for c in t):
        return None
    if len(t) % 4 == 1:
        return None
    try:
        return base64.b64decode(t + "=" * (-len(t) % 4))
    except Exception:
        return None


class PduSize(Exception):
    pass


def signing_bytes(obj):
    return canonjson.encode(canonjson.without(obj, ("signatures", "unsigned")))


def sign_json(entity, seed, key_version, obj):
    """Returns a new object with the signature added (the spec's signing algorithm)."""
    sig = ed25519.sign(seed, signing_bytes(obj))
    out = dict(obj)
    sigs = dict(out.get("signatures", {}))
    ent = dict(sigs.get(entity, {}))
    ent["ed25519:" + key_version] = b64u(sig)
    sigs[entity] = ent
    out["signatures"] = sigs
    return out


def _key_id_parts(key_id):
    i = key_id.find(":")
    if i <= 0:
        return None
    return key_id[:i], key_id[i + 1:]


def check_entity(entity, sigmap, keys, message, verify_cache=None):
    """Verdict for one entity under the two readings of 'has a valid signature':
    returns (strict, lenient). strict: >=1 ed25519 signature and *all* supplied ed25519
    signatures verify under supplied keys; lenient: >=1 supplied ed25519 signature verifies."""
    sset = sigmap.get(entity)
    if not isinstance(sset, dict):
        return (False, False)
    pub = keys.get(entity)
    if pub is None:
        return (False, False)
    n_checked = 0
    all_ok = True
    any_ok = False
    for kid, sig in sset.items():
        parts = _key_id_parts(kid)
        if parts is None or parts[0] != "ed25519":
            continue
        n_checked += 1
        pk = pub.get(kid)
        raw = b64_decode_lenient(sig) if isinstance(sig, str) else None
        ok = False
        if pk is not None and raw is not None:
            ck = (pk, message, raw)
            if verify_cache is not None and ck in verify_cache:
                ok = verify_cache[ck]
            else:
                ok = ed25519.verify(pk, message, raw)
                if verify_cache is not None:
                    verify_cache[ck] = ok
        all_ok = all_ok and ok
        any_ok = any_ok or ok
    return (n_checked > 0 and all_ok, any_ok)


def verify_json(keys, obj, cache=None):
    """(strict, lenient) verdicts; keys: entity -> {key_id: raw public key bytes}."""
    sigmap = obj.get("signatures")
    if not isinstance(sigmap, dict):
        return (False, False)
    msg = signing_bytes(obj)
    strict = lenient = True
    for entity in sigmap:
        s, l = check_entity(entity, sigmap, keys, msg, cache)
        strict, lenient = strict and s, lenient and l
    return (strict, lenient)


def content_hash_bytes(event):
    data = canonjson.encode(canonjson.without(event, ("unsigned", "signatures", "hashes")))
    if len(data) > MAX_PDU:
        raise PduSize()
    return hashlib.sha256(data).digest()


def content_hash(event):
    return b64u(content_hash_bytes(event))


def reference_hash(event, version):
    red = redact_ref.redact_one(event, version)
    data = canonjson.encode(canonjson.without(red, ("signatures", "unsigned")))
    if len(data) > MAX_PDU:
        raise PduSize()
    h = hashlib.sha256(data).digest()
    return b64u(h) if version <= 3 else b64url_u(h)


class Malformed(Exception):
    pass


def server_of_user(uid):
    if not isinstance(uid, str) or not uid.startswith("@") or ":" not in uid:
        raise Malformed("not a user ID: %r" % (uid,))
    return uid.split(":", 1)[1]


def required_servers(event, version, strict_extra=False):
    """Servers whose signature the spec demands on a received PDU."""
    out = set()
    c = event.get("content") if isinstance(event.get("content"), dict) else {}
    is_tpi_invite = (event.get("type") == "m.room.member" and c.get("membership") == "invite"
                     and "third_party_invite" in c)
    if not is_tpi_invite:
        out.add(server_of_user(event["sender"]))
    if version <= 2:
        out.add(event["event_id"].split(":", 1)[1])
    if version >= 8 and "join_authorised_via_users_server" in c:
        is_join = event.get("type") == "m.room.member" and c.get("membership") == "join"
        # The spec demands the authorising server's signature for restricted *joins*. Whether
        # the key on any other event makes it a "restricted join" is read differently by
        # implementations (ruma: any event carrying the key); strict_extra=True follows the
        # wider reading, and callers treat a disagreement between the readings as unspecified.
        if is_join or strict_extra:
            out.add(server_of_user(c["join_authorised_via_users_server"]))
    return out


def hash_and_sign(entity, seed, key_version, event, version):
    ev = dict(event)
    hashes = dict(ev.get("hashes", {})) if isinstance(ev.get("hashes"), dict) else {}
    hashes["sha256"] = content_hash(ev)
    ev["hashes"] = hashes
    red = redact_ref.redact_one(ev, version)
    signed = sign_json(entity, seed, key_version, red)
    ev["signatures"] = signed["signatures"]
    return ev


def verify_event(keys, event, version, cache=None):
    """Returns ('All'|'Signatures'|'Err') under (strict, lenient) readings as a pair."""
    red = redact_ref.redact_one(event, version)
    hashes = event.get("hashes")
    if not isinstance(hashes, dict) or not isinstance(hashes.get("sha256"), str):
        return ("Err", "Err")
    sigmap = event.get("signatures")
    if not isinstance(sigmap, dict):
        return ("Err", "Err")
    msg = signing_bytes(red)
    strict = lenient = True
    try:
        servers = required_servers(event, version)
    except (Malformed, KeyError, IndexError, AttributeError):
        return ("Err", "Err")
    try:
        servers_wide = required_servers(event, version, strict_extra=True)
    except (Malformed, KeyError, IndexError, AttributeError):
        servers_wide = None
    for server in servers:
        s, l = check_entity(server, sigmap, keys, msg, cache)
        strict, lenient = strict and s, lenient and l
    if servers_wide is None:
        strict = False
    else:
        for server in servers_wide - servers:
            s, _ = check_entity(server, sigmap, keys, msg, cache)
            strict = strict and s
    try:
        calc = content_hash_bytes(event)
    except PduSize:
        return ("Err", "Err")
    given = b64_decode_lenient(hashes["sha256"])
    status = "All" if given == calc else "Signatures"
    return (status if strict else "Err", status if lenient else "Err")


def selftest():
    # The specification's signing example (appendices, "Signing JSON" / test vectors):
    # seed YJDBA9Xnr2sVqXD9Vj7XVUnmFZcZrlw8Md7kMW+3XA1, key ed25519:1, entity "domain"
    seed = base64.b64decode("YJDBA9Xnr2sVqXD9Vj7XVUnmFZcZrlw8Md7kMW+3XA1=")
    assert b64u(ed25519.public_key(seed)) == "XGX0JRS2Af3be3knz2fBiRbApjm2Dh61gXDJA8kcJNI"
    s = sign_json("domain", seed, "1", {})
    assert s["signatures"]["domain"]["ed25519:1"] == \
        "K8280/U9SSy9IVtjBuVeLr+HpOB4BQFWbg+UZaADMtTdGYI7Geitb76LTrr5QV/7Xg4ahLwYGYZzuHGZKM5ZAQ"
    s = sign_json("domain", seed, "1", {"one": 1, "two": "Two"})
    assert s["signatures"]["domain"]["ed25519:1"] == \
        "KqmLSbO39/Bzb0QIYE82zqLwsA+PDzYIpIRA2sRQ4sL53+sN6/fpNSoqE7BP7vBZhG6kYdD13EIMJpvhJI+6Bw"
    keys = {"domain": {"ed25519:1": ed25519.public_key(seed)}}
    assert verify_json(keys, s) == (True, True)
    s2 = dict(s, one=2)
    assert verify_json(keys, s2) == (False, False)
    # spec example: minimal event signing test vector
    ev = {"room_id": "!x:domain", "sender": "@a:domain", "origin": "domain",
          "origin_server_ts": 1000000, "signatures": {}, "hashes": {}, "type": "X", "content": {},
          "prev_events": [], "auth_events": [], "depth": 3, "unsigned": {"age_ts": 1000000}}
    signed = hash_and_sign("domain", seed, "1", ev, 5)
    assert signed["hashes"]["sha256"] == "5jM4wQpv6lnBo7CLIghJuHdW+s2CMBJPUOGOC89ncos", signed["hashes"]
    assert signed["signatures"]["domain"]["ed25519:1"] == \
        "KxwGjPSDEtvnFgU00fwFz+l6d2pJM6XBIaMEn81SXPTRl16AqLAYqfIReFGZlHi5KLjAWbOoMszkwsQma+lYAg"
    assert verify_event(keys, signed, 5) == ("All", "All")
    assert b64_decode_lenient("im9+knCkMNQNh9o6sbdcZw==") is not None
    return True
