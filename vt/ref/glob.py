"""Reference glob / word matching for push rules (client-server spec, "Conditions" /
"Push rules: glob-style matching"): '*' matches any run of characters (including none and
including newlines), '?' exactly one character, everything else literally; case-insensitive.
No regex engine is used."""
import functools

WORD = set("ABCDEFGHIJKLMNOPQRSTUVWXYZabcdefghijklmnopqrstuvwxyz0123456789_")


def glob_match(pat, text):
    """whole-string glob, dynamic programming over code points"""
    pat, text = pat.lower(), text.lower()
    n, m = len(pat), len(text)
    # row[j]: pat[:i] matches text[:j]
    row = [True] + [False] * m
    for i in range(1, n + 1):
        pc = pat[i - 1]
        new = [False] * (m + 1)
        if pc == "*":
            new[0] = row[0]
            for j in range(1, m + 1):
                new[j] = row[j] or new[j - 1]
        else:
            for j in range(1, m + 1):
                new[j] = row[j - 1] and (pc == "?" or pc == text[j - 1])
        row = new
    return row[m]


def _is_word(text, i):
    return 0 <= i < len(text) and text[i] in WORD


def boundary_strict(text, i):
    """the spec's definition: start/end of the value or a neighbouring non-word character
    *outside* the match"""
    return i == 0 or i == len(text)


def word_match(pat, text, strict):
    """Is there a substring text[i:j] matched by the glob that starts and ends on a word
    boundary?  strict=True: the spec's wording (the character before i / at j is a non-word
    character, or the value starts/ends there); strict=False: additionally any word/non-word
    transition at i or j counts (what regex \\b-based implementations do)."""
    pat, text = pat.lower(), text.lower()
    L = len(text)

    def start_ok(i):
        if i == 0 or not _is_word(text, i - 1):
            return True
        return (not strict) and not _is_word(text, i)

    def end_ok(j):
        if j == L or not _is_word(text, j):
            return True
        return (not strict) and not _is_word(text, j - 1)

    starts = [i for i in range(L + 1) if start_ok(i)]
    ends = [j for j in range(L + 1) if end_ok(j)]
    for i in starts:
        for j in ends:
            if j >= i and glob_match(pat, text[i:j]):
                return True
    return False


def selftest():
    assert glob_match("a*b", "a\nb") and glob_match("a**", "a") and glob_match("?", "é")
    assert not glob_match("?", "") and glob_match("*", "") and glob_match("A?c", "abc")
    assert word_match("foo", "a foo b", True) and not word_match("foo", "afoob", False)
    assert word_match("foo", "foo", True) and word_match("fo*", "x foxtrot", True)
    assert not word_match("ox", "foxtrot", False)
    assert word_match("-foo", "a-foo", False) and not word_match("-foo", "a-foo", True)
    assert word_match("foo", "foo-bar", True) and word_match("f?o", "a,foo.", True)
    return True
