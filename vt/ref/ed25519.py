"""Pure-Python Ed25519 (RFC 8032 section 5.1), written from the RFC; no third-party code.
Used as the independent signer/verifier for C02/C03 and to derive public keys from seeds."""
import hashlib

p = 2 ** 255 - 19
L = 2 ** 252 + 27742317777372353535851937790883648493
d = -121665 * pow(121666, p - 2, p) % p
I = pow(2, (p - 1) // 4, p)


def _inv(x):
    return pow(x, p - 2, p)


def _recover_x(y, sign):
    if y >= p:
        return None
    x2 = (y * y - 1) * _inv(d * y * y + 1) % p
    if x2 == 0:
        return None if sign else 0
    x = pow(x2, (p + 3) // 8, p)
    if (x * x - x2) % p != 0:
        x = x * I % p
    if (x * x - x2) % p != 0:
        return None
    if (x & 1) != sign:
        x = p - x
    return x


_By = 4 * _inv(5) % p
_Bx = _recover_x(_By, 0)
B = (_Bx, _By, 1, _Bx * _By % p)


def _add(P, Q):
    A = (P[1] - P[0]) * (Q[1] - Q[0]) % p
    Bv = (P[1] + P[0]) * (Q[1] + Q[0]) % p
    C = 2 * P[3] * Q[3] * d % p
    D = 2 * P[2] * Q[2] % p
    E, F, G, H = Bv - A, D - C, D + C, Bv + A
    return (E * F % p, G * H % p, F * G % p, E * H % p)


def _mul(s, P):
    Q = (0, 1, 1, 0)
    while s > 0:
        if s & 1:
            Q = _add(Q, P)
        P = _add(P, P)
        s >>= 1
    return Q


def _eq(P, Q):
    if (P[0] * Q[2] - Q[0] * P[2]) % p != 0:
        return False
    return (P[1] * Q[2] - Q[1] * P[2]) % p == 0


def _compress(P):
    zinv = _inv(P[2])
    x = P[0] * zinv % p
    y = P[1] * zinv % p
    return int.to_bytes(y | ((x & 1) << 255), 32, "little")


def _decompress(s):
    if len(s) != 32:
        return None
    y = int.from_bytes(s, "little")
    sign = y >> 255
    y &= (1 << 255) - 1
    x = _recover_x(y, sign)
    if x is None:
        return None
    return (x, y, 1, x * y % p)


def _expand(seed):
    h = hashlib.sha512(seed).digest()
    a = int.from_bytes(h[:32], "little")
    a &= (1 << 254) - 8
    a |= 1 << 254
    return a, h[32:]


_pk_cache = {}


def public_key(seed):
    r = _pk_cache.get(seed)
    if r is None:
        a, _ = _expand(seed)
        r = _compress(_mul(a, B))
        _pk_cache[seed] = r
    return r


def sign(seed, msg):
    a, prefix = _expand(seed)
    A = public_key(seed)
    r = int.from_bytes(hashlib.sha512(prefix + msg).digest(), "little") % L
    Rs = _compress(_mul(r, B))
    h = int.from_bytes(hashlib.sha512(Rs + A + msg).digest(), "little") % L
    s = (r + h * a) % L
    return Rs + int.to_bytes(s, 32, "little")


def verify(public, msg, signature):
    if len(public) != 32 or len(signature) != 64:
        return False
    A = _decompress(public)
    if A is None:
        return False
    Rs = signature[:32]
    R = _decompress(Rs)
    if R is None:
        return False
    s = int.from_bytes(signature[32:], "little")
    if s >= L:
        return False
    h = int.from_bytes(hashlib.sha512(Rs + public + msg).digest(), "little") % L
    sB = _mul(s, B)
    hA = _mul(h, A)
    return _eq(sB, _add(R, hA))


def pkcs8_v1(seed):
    """PKCS#8 v1 (RFC 8410) DER document for an Ed25519 seed."""
    assert len(seed) == 32
    return bytes.fromhex("302e020100300506032b657004220420") + seed


def pkcs8_v2(seed):
    """PKCS#8 v2 (RFC 5958) with the public key attached, as ed25519-dalek/ruma generate it."""
    pk = public_key(seed)
    return bytes.fromhex("3051020101300506032b657004220420") + seed + bytes.fromhex("812100") + pk


def selftest():
    # RFC 8032 section 7.1 test vectors
    vecs = [
        ("9d61b19deffd5a60ba844af492ec2cc44449c5697b326919703bac031cae7f60",
         "d75a980182b10ab7d54bfed3c964073a0ee172f3daa62325af021a68f707511a", "",
         "e5564300c360ac729086e2cc806e828a84877f1eb8e5d974d873e065224901555fb8821590a33bacc61e39701cf9b46bd25bf5f0595bbe24655141438e7a100b"),
        ("4ccd089b28ff96da9db6c346ec114e0f5b8a319f35aba624da8cf6ed4fb8a6fb",
         "3d4017c3e843895a92b70aa74d1b7ebc9c982ccf2ec4968cc0cd55f12af4660c", "72",
         "92a009a9f0d4cab8720e820b5f642540a2b27b5416503f8fb3762223ebdb69da085ac1e43e15996e458f3613d0f11d8c387b2eaeb4302aeeb00d291612bb0c00"),
        ("c5aa8df43f9f837bedb7442f31dcb7b166d38535076f094b85ce3a2e0b4458f7",
         "fc51cd8e6218a1a38da47ed00230f0580816ed13ba3303ac5deb911548908025", "af82",
         "6291d657deec24024827e69c3abe01a30ce548a284743a445e3680d7db5ac3ac18ff9b538d16f290ae67f760984dc6594a7c15e9716ed28dc027beceea1ec40a"),
    ]
    for sk, pk, msg, sig in vecs:
        sk, pk, msg, sig = (bytes.fromhex(x) for x in (sk, pk, msg, sig))
        assert public_key(sk) == pk
        assert sign(sk, msg) == sig
        assert verify(pk, msg, sig)
        assert not verify(pk, msg + b"x", sig)
        bad = bytearray(sig)
        bad[5] ^= 1
        assert not verify(pk, msg, bytes(bad))
    return True
