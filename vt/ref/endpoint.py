"""Reference for endpoint metadata semantics: path selection by supported Matrix versions,
percent-encoding of path arguments, expected Authorization header."""

VERSIONS = ["v1.%d" % i for i in range(1, 15)]
ALL_VERSIONS = ["r0.6.1"] + VERSIONS        # r0.6.1 stands for Matrix 1.0


def vnum(v):
    """order key: 1.0 < 1.1 < ..."""
    if v.startswith("r0") or v in ("V1_0", "v1.0"):
        return 0
    if v.startswith("V1_"):
        return int(v[3:])
    return int(v.split(".")[1])


def select_path(history, versions):
    """history: {unstable: [paths], stable: [[version, path]...] ascending, deprecated, removed}.
    Returns ('ok', path) or ('err', reason).
    Spec of the property: error if every supported version removed the endpoint; else the newest
    stable path that some supported version offers; else the (last) unstable path; else error."""
    vs = [vnum(v) for v in versions]
    removed = history.get("removed")
    if removed is not None and all(v >= vnum(removed) for v in vs):
        return ("err", "removed")
    best = None
    for ver, path in history.get("stable", []):
        if any(v >= vnum(ver) for v in vs):
            best = path           # ascending order: the last match is the newest
    if best is not None:
        return ("ok", best)
    unstable = history.get("unstable", [])
    if unstable:
        return ("ok", unstable[-1])
    return ("err", "no unstable path")


UNRESERVED_KEEP = set("!$&'()*+,-.:;=@_~")


def encode_path_arg(s):
    """percent-encode a path argument so that standard routing (split on '/', percent-decode)
    returns it unchanged"""
    out = []
    for ch in s:
        if ch.isascii() and (ch.isalnum() or ch in UNRESERVED_KEEP or ch in "[]^|\\"):
            out.append(ch)
        else:
            out.append("".join("%%%02X" % b for b in ch.encode("utf-8")))
    return "".join(out)


def fill(template, args):
    it = iter(args)
    return "/".join(encode_path_arg(next(it)) if seg.startswith(":") else seg for seg in template.split("/"))


def expected_auth(scheme, token_mode):
    """Authorization header presence for AuthScheme x SendAccessToken: 'bearer' | None | 'err'"""
    if scheme == "ServerSignatures":
        return None
    has = token_mode in ("if_required", "always", "appservice")
    if scheme == "None":
        return "bearer" if token_mode == "always" else None
    if scheme == "AccessToken":
        return "bearer" if has else "err"
    if scheme == "AccessTokenOptional":
        return "bearer" if has else None
    if scheme == "AppserviceToken":
        return "bearer" if token_mode in ("appservice", "always") else "err"
    if scheme == "AppserviceTokenOptional":
        return "bearer" if token_mode in ("appservice", "always") else None
    raise ValueError(scheme)


def selftest():
    h = {"unstable": ["/u/:a"], "stable": [["v1.1", "/v1/:a"], ["v1.5", "/v2/:a"]], "deprecated": "v1.9", "removed": "v1.12"}
    assert select_path(h, ["v1.1"]) == ("ok", "/v1/:a")
    assert select_path(h, ["v1.1", "v1.6"]) == ("ok", "/v2/:a")
    assert select_path(h, ["r0.6.1"]) == ("ok", "/u/:a")
    assert select_path(h, ["v1.12", "v1.13"]) == ("err", "removed")
    assert select_path(h, ["v1.12", "v1.2"]) == ("ok", "/v2/:a")
    assert select_path({"stable": [["v1.3", "/x"]]}, ["v1.1"]) == ("err", "no unstable path")
    assert encode_path_arg("a/b%41 ?#é") == "a%2Fb%2541%20%3F%23%C3%A9"
    assert fill("/_m/:a/x/:b", ["1/2", ""]) == "/_m/1%2F2/x/"
    assert expected_auth("None", "if_required") is None and expected_auth("AccessToken", "none") == "err"
    return True
