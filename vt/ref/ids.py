"""Identifier grammar reference (Matrix spec appendices "Identifier Grammar"), as two predicates
per type:

  necessary(s)   what the property demands of every *accepted* string
  sufficient(s)  the spec's recommended grammar: every such string must be accepted

See DESIGN.md appendix C for what is and is not demanded.
"""
import ipaddress
import re

MAX = 255

DNS_RE = re.compile(r"[A-Za-z0-9.-]+")
PORT_RE = re.compile(r"[0-9]{1,5}")
IPV4_RE = re.compile(r"[0-9]{1,3}\.[0-9]{1,3}\.[0-9]{1,3}\.[0-9]{1,3}")
IPV6_LOOSE_RE = re.compile(r"[0-9A-Fa-f:.]{2,45}")

# curated valid RFC 4291 spellings (sufficient side only)
IPV6_GOOD = ["::1", "::", "1234:5678::abcd", "2001:db8::ff00:42:8329", "fe80::1",
             "1:2:3:4:5:6:7:8", "::ffff:1.2.3.4", "2001:DB8::A", "0:0:0:0:0:0:0:1", "ff02::2",
             "2001:0db8:0000:0000:0000:ff00:0042:8329", "1::", "::1:2:3"]


def split_server(s):
    """-> (host, rest) following the spec's server_name = hostname [ ":" port ]"""
    if s.startswith("["):
        end = s.find("]")
        if end < 0:
            return None
        return s[:end + 1], s[end + 1:]
    i = s.find(":")
    if i < 0:
        return s, ""
    return s[:i], s[i:]


def server_necessary(s):
    sp = split_server(s)
    if sp is None:
        return False
    host, rest = sp
    if host.startswith("["):
        inner = host[1:-1]
        if not IPV6_LOOSE_RE.fullmatch(inner) or ":" not in inner:
            return False
    else:
        if not host or not DNS_RE.fullmatch(host):
            return False
    if rest == "":
        return True
    return rest[0] == ":" and bool(PORT_RE.fullmatch(rest[1:]))


def server_sufficient(s):
    if len(s.encode()) > 230:
        return False
    sp = split_server(s)
    if sp is None:
        return False
    host, rest = sp
    if host.startswith("["):
        if host[1:-1] not in IPV6_GOOD:
            return False
    elif IPV4_RE.fullmatch(host):
        if any(int(x) > 255 or (len(x) > 1 and x[0] == "0") for x in host.split(".")):
            return False   # not a clean dotted quad; as a DNS name it would still be in the
            #                grammar, but implementations differ: not demanded
    elif not (host and DNS_RE.fullmatch(host)):
        return False
    if rest == "":
        return True
    if rest[0] != ":" or not PORT_RE.fullmatch(rest[1:]):
        return False
    return int(rest[1:]) <= 65535


def _sigil_colon(s, sigil):
    if not s.startswith(sigil) or len(s.encode()) > MAX:
        return None
    i = s.find(":")
    if i < 0:
        return None
    return s[1:i], s[i + 1:]


def user_necessary(s):
    p = _sigil_colon(s, "@")
    return p is not None and "\x00" not in p[0] and server_necessary(p[1])


USER_STRICT_RE = re.compile(r"[a-z0-9._=/+-]+")


def user_sufficient(s):
    p = _sigil_colon(s, "@")
    if p is None:
        return False
    lp, srv = p
    historical = lp != "" and all(0x21 <= ord(c) <= 0x7e and c != ":" for c in lp)
    return bool(USER_STRICT_RE.fullmatch(lp) or historical) and server_sufficient(srv)


def alias_necessary(s):
    p = _sigil_colon(s, "#")
    return p is not None and "\x00" not in p[0] and server_necessary(p[1])


def alias_sufficient(s):
    p = _sigil_colon(s, "#")
    if p is None:
        return False
    lp, srv = p
    return lp != "" and "\x00" not in lp and server_sufficient(srv)


def room_necessary(s):
    return s.startswith("!") and len(s.encode()) <= MAX and "\x00" not in s


OPAQUE_RE = re.compile(r"[0-9A-Za-z._~-]+")
B64ISH_RE = re.compile(r"[0-9A-Za-z+/_-]{43}")


def room_sufficient(s):
    if not s.startswith("!") or len(s.encode()) > MAX:
        return False
    i = s.find(":")
    if i < 0:
        return bool(B64ISH_RE.fullmatch(s[1:]))
    return bool(OPAQUE_RE.fullmatch(s[1:i])) and server_sufficient(s[i + 1:])


def room_or_alias_necessary(s):
    return room_necessary(s) if s.startswith("!") else alias_necessary(s)


def room_or_alias_sufficient(s):
    return room_sufficient(s) if s.startswith("!") else alias_sufficient(s)


def event_necessary(s):
    if not s.startswith("$") or len(s.encode()) > MAX:
        return False
    i = s.find(":")
    if i < 0:
        return True
    return server_necessary(s[i + 1:])


def event_sufficient(s):
    if not s.startswith("$") or len(s.encode()) > MAX:
        return False
    i = s.find(":")
    if i < 0:
        return bool(B64ISH_RE.fullmatch(s[1:]))
    return bool(OPAQUE_RE.fullmatch(s[1:i])) and server_sufficient(s[i + 1:])


def key_necessary(name_ok):
    def f(s):
        i = s.find(":")
        return i >= 1 and name_ok(s[i + 1:])
    return f


ALG_RE = re.compile(r"[a-z0-9_.]+")


def key_sufficient(name_good):
    def f(s):
        i = s.find(":")
        return i >= 1 and len(s) <= MAX and bool(ALG_RE.fullmatch(s[:i])) and name_good(s[i + 1:])
    return f


def any_name(n):
    return True


def nonempty(n):
    return n != ""


KEYVER_RE = re.compile(r"[A-Za-z0-9_]+")
B64KEY_RE = re.compile(r"[A-Za-z0-9+/]+")
DEVICE_RE = re.compile(r"[A-Za-z0-9]+")


def room_version_necessary(s):
    return 1 <= len(s) <= 32


def room_version_sufficient(s):
    return 1 <= len(s) <= 32 and bool(re.fullmatch(r"[a-z0-9.-]+", s))


def client_secret_necessary(s):
    return 1 <= len(s.encode()) <= 255


def client_secret_sufficient(s):
    return 1 <= len(s) <= 255 and bool(re.fullmatch(r"[0-9a-zA-Z.=_-]+", s))


def always(s):
    return True


TYPES = {
    # name: (necessary, sufficient, validated?)
    "user_id": (user_necessary, user_sufficient),
    "server_name": (server_necessary, server_sufficient),
    "room_id": (room_necessary, room_sufficient),
    "room_alias_id": (alias_necessary, alias_sufficient),
    "room_or_alias_id": (room_or_alias_necessary, room_or_alias_sufficient),
    "event_id": (event_necessary, event_sufficient),
    "server_signing_key_id": (key_necessary(nonempty), key_sufficient(lambda n: bool(KEYVER_RE.fullmatch(n)))),
    "device_signing_key_id": (key_necessary(any_name), key_sufficient(lambda n: bool(DEVICE_RE.fullmatch(n)))),
    "cross_signing_key_id": (key_necessary(nonempty), key_sufficient(lambda n: bool(B64KEY_RE.fullmatch(n)))),
    "cross_signing_or_device_signing_key_id": (key_necessary(any_name), key_sufficient(lambda n: bool(DEVICE_RE.fullmatch(n)))),
    "device_key_id": (key_necessary(any_name), key_sufficient(lambda n: bool(DEVICE_RE.fullmatch(n)))),
    "one_time_key_id": (key_necessary(any_name), key_sufficient(lambda n: bool(DEVICE_RE.fullmatch(n)))),
    "any_signing_key_id": (key_necessary(any_name), key_sufficient(lambda n: bool(KEYVER_RE.fullmatch(n)))),
    "server_signing_key_version": (nonempty, lambda s: bool(KEYVER_RE.fullmatch(s))),
    "client_secret": (client_secret_necessary, client_secret_sufficient),
    "base64_public_key": (nonempty, lambda s: bool(B64KEY_RE.fullmatch(s))),
    "session_id": (always, lambda s: bool(re.fullmatch(r"[0-9a-zA-Z.=_-]{1,255}", s))),
    "room_version_id": (room_version_necessary, room_version_sufficient),
}
UNCHECKED = ["device_id", "transaction_id", "one_time_key_name", "voip_id",
             "base64_public_key_or_device_id", "mxc_uri"]


def mxc_parts(s):
    """(server, media_id) if s is a well-formed MXC URI per the spec, else None."""
    if not s.startswith("mxc://"):
        return None
    rest = s[6:]
    i = rest.find("/")
    if i < 0:
        return None
    server, media = rest[:i], rest[i + 1:]
    if not re.fullmatch(r"[0-9A-Za-z_-]*", media):
        return None
    if not server_necessary(server):
        return None
    return server, media


def selftest():
    assert server_necessary("example.org") and server_necessary("a:1") and server_necessary("[::1]:8448")
    assert not server_necessary("") and not server_necessary(":80") and not server_necessary("a:+80")
    assert not server_necessary("a:000080") and not server_necessary("a:") and not server_necessary("[::1")
    assert not server_necessary("a_b") and not server_necessary("[::1]x")
    assert server_sufficient("matrix.org") and server_sufficient("1.2.3.4:80") and server_sufficient("[1234:5678::abcd]:5678")
    assert not server_sufficient("a:65536")
    assert user_necessary("@a:b") and not user_necessary("@a\x00:b") and not user_necessary("a:b")
    assert user_sufficient("@carl:example.com") and user_sufficient("@A!b:example.com")
    assert not user_sufficient("@τ:example.com") and user_necessary("@τ:example.com")
    assert event_sufficient("$acR1l0raoZnm60CBwAVgqbZqoO/mYU81xysh1u7XcJk")
    assert event_sufficient("$39hvsi03hlne:example.com")
    assert not event_necessary("$" + "a" * 255) and event_necessary("$" + "a" * 254)
    assert room_sufficient("!n8f893n9:example.com")
    assert TYPES["server_signing_key_id"][1]("ed25519:abc_1") and not TYPES["server_signing_key_id"][0](":x")
    assert mxc_parts("mxc://a.org/abc") == ("a.org", "abc") and mxc_parts("mxc://a.org") is None
    return True
