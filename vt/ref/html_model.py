"""Reference model of the Matrix HTML allow-lists (client-server spec, m.room.message
"formatted_body") and of the documented semantics of ruma_html::SanitizerConfig's builder.

effective(config) -> the allow-lists a configuration denotes. check_output(...) judges a sanitized
document (independent tokenizer events or a parsed tree) against them. expected_shape(...)
computes which input nodes must survive (text sequence, element-name sequence)."""
import re
from html.parser import HTMLParser

STRICT_ELEMENTS = {"del", "h1", "h2", "h3", "h4", "h5", "h6", "blockquote", "p", "a", "ul", "ol",
                   "sup", "sub", "li", "b", "i", "u", "strong", "em", "s", "code", "hr", "br", "div",
                   "table", "thead", "tbody", "tr", "th", "td", "caption", "pre", "span", "img",
                   "details", "summary", "mx-reply"}
STRICT_ATTRS = {"span": {"data-mx-bg-color", "data-mx-color", "data-mx-spoiler", "data-mx-maths"},
                "a": {"target", "href"}, "img": {"width", "height", "alt", "title", "src"},
                "ol": {"start"}, "code": {"class"}, "div": {"data-mx-maths"}}
STRICT_SCHEMES = {"a": {"href": {"http", "https", "ftp", "mailto", "magnet"}},
                  "img": {"src": {"mxc"}}}
COMPAT_SCHEMES = {"a": {"href": {"matrix"}}}
STRICT_CLASSES = {"code": {"language-*"}}
DEPRECATED_ELEMENTS = {"font": "span", "strike": "s"}
DEPRECATED_ATTRS = {"font": {"color": "data-mx-color"}}
MAX_DEPTH = 100
VOID = {"area", "base", "br", "col", "embed", "hr", "img", "input", "link", "meta", "param", "source",
        "track", "wbr"}


def _lst(c, key):
    v = c.get(key)
    if v is None:
        return None, False
    return v["list"], v.get("behavior") == "override"


class Effective:
    def __init__(self, c):
        self.c = c
        self.mode = c.get("mode")
        self.strict = self.mode is not None
        self.compat = self.mode == "compat"
        self.remove_elements = set(c.get("remove_elements") or [])
        self.ignore_elements = set(c.get("ignore_elements") or [])
        self.remove_reply = bool(c.get("remove_reply_fallback"))
        self.max_depth = c.get("max_depth", MAX_DEPTH if self.strict else None)
        lst, ov = _lst(c, "allow_elements")
        if lst is None:
            self.allowed_elements = set(STRICT_ELEMENTS) if self.strict else None   # None = all
        else:
            self.allowed_elements = set(lst) | (STRICT_ELEMENTS if self.strict and not ov else set())
        lst, ov = _lst(c, "replace_elements")
        self.replace_elements = dict(DEPRECATED_ELEMENTS) if self.strict and not ov else {}
        self.replace_elements.update(lst or {})
        lst, ov = _lst(c, "replace_attrs")
        self.replace_attrs = {k: dict(v) for k, v in DEPRECATED_ATTRS.items()} if self.strict and not ov else {}
        for el, m in (lst or {}).items():
            self.replace_attrs.setdefault(el, {}).update(m)
        lst, ov = _lst(c, "allow_attrs")
        self.whitelist_attrs = lst is not None or self.strict
        self.allowed_attrs = {k: set(v) for k, v in STRICT_ATTRS.items()} if self.strict and not ov else {}
        for el, names in (lst or {}).items():
            self.allowed_attrs.setdefault(el, set()).update(names)
        self.remove_attrs = {k: set(v) for k, v in (c.get("remove_attrs") or {}).items()}
        lst, ov = _lst(c, "allow_schemes")
        self.check_schemes = lst is not None or self.strict
        self.allowed_schemes = {}
        if self.strict and not ov:
            for src in (STRICT_SCHEMES, COMPAT_SCHEMES if self.compat else {}):
                for el, m in src.items():
                    for a, sch in m.items():
                        self.allowed_schemes.setdefault(el, {}).setdefault(a, set()).update(sch)
        for el, m in (lst or {}).items():
            for a, sch in m.items():
                self.allowed_schemes.setdefault(el, {}).setdefault(a, set()).update(sch)
        self.deny_schemes = c.get("deny_schemes") or {}
        lst, ov = _lst(c, "allow_classes")
        self.whitelist_classes = lst is not None or self.strict
        self.allowed_classes = {k: set(v) for k, v in STRICT_CLASSES.items()} if self.strict and not ov else {}
        for el, names in (lst or {}).items():
            self.allowed_classes.setdefault(el, set()).update(names)
        self.remove_classes = {k: set(v) for k, v in (c.get("remove_classes") or {}).items()}

    def element_allowed(self, name):
        if name in self.remove_elements or name in self.ignore_elements:
            return False
        if self.remove_reply and name == "mx-reply":
            return False
        return self.allowed_elements is None or name in self.allowed_elements

    def attr_allowed(self, el, attr):
        if attr in self.remove_attrs.get(el, ()):
            return False
        if not self.whitelist_attrs:
            return True
        return attr in self.allowed_attrs.get(el, ())


def wild(pattern, s):
    return re.fullmatch(".*".join(re.escape(p) for p in pattern.split("*")).replace("\\?", "."), s) is not None


def url_scheme(value):
    """scheme as a browser would see it: strip leading/trailing C0 controls and spaces, drop
    tab/CR/LF anywhere, lower-case; None if the value has no scheme"""
    v = value.strip("".join(chr(i) for i in range(0x21)))
    v = v.replace("\t", "").replace("\n", "").replace("\r", "")
    m = re.match(r"^([A-Za-z][A-Za-z0-9+.\-]*):", v)
    return m.group(1).lower() if m else None


def check_element(eff, name, attrs, problems, where):
    """attrs: list of (name, value). Appends problem descriptions."""
    if not eff.element_allowed(name):
        problems.append("%s: element <%s> is not allowed" % (where, name))
        return
    for a, v in attrs:
        if not eff.attr_allowed(name, a):
            problems.append("%s: attribute %s on <%s> is not allowed" % (where, a, name))
        denied = eff.deny_schemes.get(name, {}).get(a)
        sch = url_scheme(v or "")
        # builder deny-lists: documented literal prefix semantics ("scheme:")
        if denied and any((v or "").startswith(s + ":") for s in denied):
            problems.append("%s: denied scheme in %s=%r of <%s>" % (where, a, v, name))
        if eff.check_schemes:
            allowed = eff.allowed_schemes.get(name, {}).get(a)
            if allowed is not None and sch not in allowed:
                problems.append("%s: scheme %r in %s=%r of <%s> is not allowed" % (where, sch, a, v, name))
        if a == "class":
            for tok in (v or "").split():
                if any(wild(p, tok) for p in eff.remove_classes.get(name, ())):
                    problems.append("%s: removed class %r present on <%s>" % (where, tok, name))
                if eff.whitelist_classes and not any(wild(p, tok) for p in eff.allowed_classes.get(name, ())):
                    problems.append("%s: class %r on <%s> is not allowed" % (where, tok, name))


class _Tok(HTMLParser):
    def __init__(self):
        super().__init__(convert_charrefs=True)
        self.events = []

    def handle_starttag(self, tag, attrs):
        self.events.append(("start", tag, attrs))

    def handle_startendtag(self, tag, attrs):
        self.events.append(("start", tag, attrs))
        self.events.append(("end", tag))

    def handle_endtag(self, tag):
        self.events.append(("end", tag))

    def handle_data(self, data):
        self.events.append(("text", data))

    def handle_comment(self, data):
        self.events.append(("comment", data))

    def handle_decl(self, decl):
        self.events.append(("decl", decl))

    def handle_pi(self, data):
        self.events.append(("pi", data))

    def unknown_decl(self, data):
        self.events.append(("decl", data))


def tokenize(html):
    t = _Tok()
    t.feed(html)
    t.close()
    return t.events


def check_tokens(eff, html):
    """Independent tokenizer view of the output string. Returns (problems, max_depth, text)."""
    problems = []
    depth = 0
    maxd = 0
    text = []
    for ev in tokenize(html):
        if ev[0] == "start":
            name = ev[1]
            check_element(eff, name, ev[2], problems, "tokenizer")
            if name not in VOID:
                depth += 1
                maxd = max(maxd, depth)
            else:
                maxd = max(maxd, depth + 1)
        elif ev[0] == "end":
            if ev[1] not in VOID:
                depth -= 1
        elif ev[0] == "text":
            text.append(ev[1])
        else:
            problems.append("tokenizer: %s node in output: %r" % (ev[0], ev[1][:40]))
    if eff.max_depth is not None and maxd > eff.max_depth:
        problems.append("tokenizer: nesting depth %d > %d" % (maxd, eff.max_depth))
    return problems, maxd, "".join(text)


def check_tree(eff, tree, where="reparse"):
    """tree: the adapter's flat pre-order dump. Returns (problems, max_depth, text)."""
    problems = []
    maxd = 0
    text = []
    for node in tree:
        d, kind = node[0], node[1]
        if kind == "e":
            maxd = max(maxd, d + 1)
            if where == "reparse" and node[2] in ("tbody", "tr", "colgroup") and not node[3]:
                # an HTML parser implies <tbody>/<tr>/<colgroup> inside tables: it is not something the
                # sanitizer emitted (only matters for builder configs that exclude tbody)
                continue
            check_element(eff, node[2], [tuple(a) for a in node[3]], problems, where)
        elif kind == "t":
            text.append(node[2])
        else:
            problems.append("%s: non-element non-text node in output" % where)
    if eff.max_depth is not None and maxd > eff.max_depth:
        problems.append("%s: nesting depth %d > %d" % (where, maxd, eff.max_depth))
    return problems, maxd, "".join(text)


def expected_shape(eff, in_tree):
    """From the parsed input (flat pre-order dump): the text that must survive, in order, and the
    element names that must survive, in order. Only valid when the depth rule is out of play
    (caller checks the input depth). Elements are *removed with their content* when listed in
    remove_elements / mx-reply with fallback removal; *unwrapped* (children kept) when not
    allowed, ignored or failing a scheme rule."""
    text = []
    names = []
    skip_below = None
    for node in in_tree:
        d, kind = node[0], node[1]
        if skip_below is not None:
            if d > skip_below:
                continue
            skip_below = None
        if kind == "t":
            text.append(node[2])
        elif kind == "e":
            orig = node[2]
            name = eff.replace_elements.get(orig, orig)
            if name in eff.remove_elements or (eff.remove_reply and name == "mx-reply"):
                skip_below = d
                continue
            if not eff.element_allowed(name):
                continue
            attrs = []
            rep = eff.replace_attrs.get(orig, {})
            for a, v in node[3]:
                attrs.append((rep.get(a, a), v))
            ok = True
            for a, v in attrs:
                denied = eff.deny_schemes.get(name, {}).get(a)
                if denied and any(v.startswith(s + ":") for s in denied):
                    ok = False
                if eff.check_schemes:
                    allowed = eff.allowed_schemes.get(name, {}).get(a)
                    if allowed is not None and not any(v.startswith(s + ":") for s in allowed):
                        ok = False
            if ok:
                names.append(name)
        else:
            skip_below = d      # comments etc. have no children; harmless
    return "".join(text), names


def selftest():
    eff = Effective({"mode": "strict"})
    p, d, t = check_tokens(eff, '<a href="https://x">x</a><span data-mx-color="red">hi</span>')
    assert p == [] and d == 1 and t == "xhi", (p, d, t)
    p, _, _ = check_tokens(eff, '<a href="javascript:alert(1)">x</a>')
    assert len(p) == 1 and "scheme" in p[0]
    p, _, _ = check_tokens(eff, '<a href=" JaVa\tScript:alert(1)">x</a><script>x</script><!-- c --><p onclick="x">')
    assert len(p) == 4, p
    p, _, _ = check_tokens(eff, '<code class="language-rust foo">')
    assert len(p) == 1 and "class" in p[0]
    eff2 = Effective({"mode": "compat", "allow_elements": {"list": ["keep"], "behavior": "add"},
                      "remove_reply_fallback": True})
    assert eff2.element_allowed("keep") and eff2.element_allowed("p") and not eff2.element_allowed("mx-reply")
    assert "matrix" in eff2.allowed_schemes["a"]["href"]
    eff3 = Effective({"mode": "strict", "allow_elements": {"list": ["p"], "behavior": "override"}})
    assert eff3.element_allowed("p") and not eff3.element_allowed("div")
    assert url_scheme("  \x01https://x") == "https" and url_scheme("/rel") is None
    return True
