"""Reference redaction algorithm, written from the Matrix specification's per-room-version
redaction rules (client-server spec "Redactions" + the room version pages). Independent of ruma."""
import copy

TOP_ALL = {"event_id", "type", "room_id", "sender", "state_key", "content", "hashes", "signatures",
           "depth", "prev_events", "auth_events", "origin_server_ts"}
TOP_V1_10 = {"origin", "membership", "prev_state"}

SPECIAL_TYPES = ["m.room.member", "m.room.create", "m.room.join_rules", "m.room.power_levels",
                 "m.room.aliases", "m.room.history_visibility", "m.room.redaction"]


class RedactError(Exception):
    pass


def kept_top(version):
    return TOP_ALL | (TOP_V1_10 if version <= 10 else set())


def kept_content_keys(etype, version):
    """Set of kept content keys, or 'ALL'. third_party_invite (v11 member) handled separately."""
    if etype == "m.room.member":
        k = {"membership"}
        if version >= 9:
            k.add("join_authorised_via_users_server")
        return k
    if etype == "m.room.create":
        return "ALL" if version >= 11 else {"creator"}
    if etype == "m.room.join_rules":
        return {"join_rule"} | ({"allow"} if version >= 8 else set())
    if etype == "m.room.power_levels":
        k = {"ban", "events", "events_default", "kick", "redact", "state_default", "users",
             "users_default"}
        if version >= 11:
            k.add("invite")
        return k
    if etype == "m.room.aliases":
        return {"aliases"} if version <= 5 else set()
    if etype == "m.room.history_visibility":
        return {"history_visibility"}
    if etype == "m.room.redaction":
        return {"redacts"} if version >= 11 else set()
    return set()


def redact_content(content, etype, version):
    """Returns a list of acceptable results (the spec leaves one corner open: a v11 member event
    whose third_party_invite has no `signed` member - an empty object or nothing may remain)."""
    keys = kept_content_keys(etype, version)
    if keys == "ALL":
        return [copy.deepcopy(content)]
    out = {k: copy.deepcopy(v) for k, v in content.items() if k in keys}
    if etype == "m.room.member" and version >= 11 and "third_party_invite" in content:
        tpi = content["third_party_invite"]
        if not isinstance(tpi, dict):
            # unspecified: an implementation may refuse or drop the malformed member
            return [out, RedactError("third_party_invite is not an object")]
        if "signed" in tpi:
            out["third_party_invite"] = {"signed": copy.deepcopy(tpi["signed"])}
            return [out]
        alt = dict(out)
        alt["third_party_invite"] = {}
        return [out, alt]
    return [out]


def redact(event, version, because=None):
    """Returns the list of acceptable outcomes: dicts and/or a RedactError instance."""
    if "type" not in event or not isinstance(event["type"], str):
        return [RedactError("type missing or not a string")]
    etype = event["type"]
    results = []
    if "content" in event:
        if not isinstance(event["content"], dict):
            return [RedactError("content is not an object")]
        contents = redact_content(event["content"], etype, version)
    else:
        contents = [None]
    top = kept_top(version)
    for c in contents:
        if isinstance(c, RedactError):
            results.append(c)
            continue
        out = {k: copy.deepcopy(v) for k, v in event.items() if k in top and k != "content"}
        if c is not None:
            out["content"] = c
        if because is not None:
            out["unsigned"] = {"redacted_because": copy.deepcopy(because)}
        results.append(out)
    return results


def redact_one(event, version, because=None):
    """The single expected result for events outside the open corner (raises otherwise)."""
    r = redact(event, version, because)
    if isinstance(r[0], RedactError):
        raise r[0]
    return r[0]


def selftest():
    ev = {"type": "m.room.member", "content": {"membership": "join", "displayname": "x",
                                               "join_authorised_via_users_server": "@a:b"},
          "origin": "o", "unsigned": {"age": 1}, "junk": 1, "sender": "@a:b", "depth": 3}
    assert redact_one(ev, 1) == {"type": "m.room.member", "content": {"membership": "join"},
                                 "origin": "o", "sender": "@a:b", "depth": 3}
    assert redact_one(ev, 9)["content"] == {"membership": "join",
                                            "join_authorised_via_users_server": "@a:b"}
    assert "origin" not in redact_one(ev, 11)
    c = {"type": "m.room.create", "content": {"creator": "@a:b", "room_version": "11", "x": 1}}
    assert redact_one(c, 10)["content"] == {"creator": "@a:b"}
    assert redact_one(c, 11)["content"] == c["content"]
    p = {"type": "m.room.power_levels", "content": {"invite": 1, "ban": 2, "notifications": {}}}
    assert redact_one(p, 10)["content"] == {"ban": 2}
    assert redact_one(p, 11)["content"] == {"ban": 2, "invite": 1}
    a = {"type": "m.room.aliases", "content": {"aliases": ["#a:b"]}}
    assert redact_one(a, 5)["content"] == {"aliases": ["#a:b"]} and redact_one(a, 6)["content"] == {}
    r = {"type": "m.room.redaction", "content": {"redacts": "$e", "reason": "r"}, "redacts": "$e"}
    assert redact_one(r, 10) == {"type": "m.room.redaction", "content": {}}
    assert redact_one(r, 11) == {"type": "m.room.redaction", "content": {"redacts": "$e"}}
    j = {"type": "m.room.join_rules", "content": {"join_rule": "restricted", "allow": []}}
    assert redact_one(j, 7)["content"] == {"join_rule": "restricted"}
    assert redact_one(j, 8)["content"] == j["content"]
    assert isinstance(redact({"content": {}}, 1)[0], RedactError)
    return True
