"""Reference implementation of the Matrix event authorization rules for room versions 1-11,
written from the specification (server-server API "Authorization rules" as amended by each room
version page) - see DESIGN.md appendix A for the reading used where the text is ambiguous.

auth_check(version, event, state) -> (allowed: bool, rule: str)
    state: {(type, state_key): event}; event: dict with type, sender, state_key?, content,
    event_id, room_id, prev_events, auth_events, redacts?
auth_types(version, event) -> set of (type, state_key)  | raises Malformed
"""
import re

from . import canonjson, ed25519, event_sig

MAXI = 2 ** 53 - 1
DEFAULTS = {"ban": 50, "kick": 50, "redact": 50, "state_default": 50, "invite": 0, "events_default": 0,
            "users_default": 0}
SCALARS = ["users_default", "events_default", "state_default", "ban", "redact", "kick", "invite"]


class Malformed(Exception):
    pass


class Reject(Exception):
    def __init__(self, rule):
        self.rule = rule


def server_of(user_id):
    return user_id.split(":", 1)[1]


def is_user_id(s):
    return isinstance(s, str) and s.startswith("@") and ":" in s and len(s.encode()) <= 255 and \
        "\x00" not in s.split(":", 1)[0] and bool(re.fullmatch(r"[A-Za-z0-9.\-]+(:[0-9]{1,5})?|\[[0-9A-Fa-f:.]+\](:[0-9]{1,5})?", s.split(":", 1)[1]))


def parse_level(v, version):
    """integer; before v10 also a string holding a decimal integer (surrounding whitespace and a
    leading + tolerated)"""
    if isinstance(v, bool):
        raise Malformed("level is a boolean")
    if isinstance(v, int):
        if not -MAXI <= v <= MAXI:
            raise Malformed("level out of range")
        return v
    if isinstance(v, str) and version < 10:
        t = v.strip()
        if re.fullmatch(r"\+[0-9]+|-?[0-9]+", t):
            n = int(t)
            if -MAXI <= n <= MAXI:
                return n
        raise Malformed("level string is not an integer")
    raise Malformed("level is not an integer")


class Levels:
    """lazy view of the current m.room.power_levels event (or its absence)"""

    def __init__(self, event, creator, version):
        self.ev = event
        self.content = event["content"] if event is not None else None
        self.creator = creator
        self.v = version
        if self.content is not None and not isinstance(self.content, dict):
            raise Malformed("power_levels content is not an object")

    def scalar_raw(self, field):
        """value as an int, or None if the field is absent (or there is no event)"""
        if self.content is None or field not in self.content:
            return None
        return parse_level(self.content[field], self.v)

    def scalar(self, field):
        r = self.scalar_raw(field)
        return DEFAULTS[field] if r is None else r

    def int_map(self, field, key_ok=None):
        if self.content is None or field not in self.content:
            return None
        m = self.content[field]
        if not isinstance(m, dict):
            raise Malformed("%s is not an object" % field)
        out = {}
        for k, val in m.items():
            if key_ok is not None and not key_ok(k):
                raise Malformed("bad key in %s" % field)
            out[k] = parse_level(val, self.v)
        return out

    def user(self, user_id):
        if self.content is None:
            return 100 if user_id == self.creator else 0
        users = self.int_map("users", is_user_id)
        if users is not None and user_id in users:
            return users[user_id]
        return self.scalar("users_default")

    def for_event(self, etype, is_state):
        if self.content is None:
            return DEFAULTS["state_default"] if is_state else DEFAULTS["events_default"]
        events = self.int_map("events")
        if events is not None and etype in events:
            return events[etype]
        return self.scalar("state_default" if is_state else "events_default")


def membership_of(state, user_id):
    ev = state.get(("m.room.member", user_id))
    if ev is None:
        return "leave"
    c = ev["content"]
    if not isinstance(c, dict) or not isinstance(c.get("membership"), str):
        raise Malformed("member event without membership")
    return c["membership"]


def join_rule_of(state):
    ev = state.get(("m.room.join_rules", ""))
    if ev is None:
        # the rules never say what applies without a join_rules event; ruma rejects (appendix A)
        raise Reject("no-join-rules-event")
    c = ev["content"]
    if not isinstance(c, dict) or not isinstance(c.get("join_rule"), str):
        raise Malformed("join_rules event without join_rule")
    return c["join_rule"]


def creator_of(create, version):
    if version >= 11:
        return create["sender"]
    c = create["content"]
    if not isinstance(c, dict) or not is_user_id(c.get("creator")):
        raise Malformed("create event without creator")
    return c["creator"]


def check_create(version, ev):
    if ev.get("prev_events"):
        raise Reject("create-has-prev-events")
    rid = ev["room_id"]
    if ":" not in rid:
        raise Reject("create-room-id-without-server")
    if rid.split(":", 1)[1] != server_of(ev["sender"]):
        raise Reject("create-room-id-server-mismatch")
    if version <= 10:
        c = ev["content"]
        if not isinstance(c, dict) or "creator" not in c or c["creator"] is None:
            raise Reject("create-without-creator")
    return "create-allowed"


def check_tpi_invite(version, ev, state, target):
    c = ev["content"]
    tpi = c["third_party_invite"]
    if membership_of(state, target) == "ban":
        raise Reject("tpi-target-banned")
    if not isinstance(tpi, dict) or not isinstance(tpi.get("signed"), dict):
        raise Reject("tpi-without-signed")
    signed = tpi["signed"]
    if not isinstance(signed.get("token"), str) or not isinstance(signed.get("mxid"), str):
        raise Reject("tpi-without-mxid-or-token")
    if signed["mxid"] != target:
        raise Reject("tpi-mxid-mismatch")
    tev = state.get(("m.room.third_party_invite", signed["token"]))
    if tev is None:
        raise Reject("tpi-no-event-for-token")
    if tev["sender"] != ev["sender"]:
        raise Reject("tpi-sender-mismatch")
    tc = tev["content"] if isinstance(tev["content"], dict) else {}
    keys = []
    if isinstance(tc.get("public_key"), str):
        keys.append(tc["public_key"])
    for k in tc.get("public_keys", []) or []:
        if isinstance(k, dict) and isinstance(k.get("public_key"), str):
            keys.append(k["public_key"])
    sigs = signed.get("signatures")
    if not isinstance(sigs, dict):
        raise Reject("tpi-signatures-malformed")
    msg = canonjson.encode(canonjson.without(signed, ("signatures", "unsigned")))
    for entity, kv in sigs.items():
        if not isinstance(kv, dict):
            raise Reject("tpi-signatures-malformed")
        for key_id, sig in kv.items():
            if not key_id.startswith("ed25519:") or not isinstance(sig, str):
                continue
            raw = event_sig.b64_decode_lenient(sig)
            if raw is None:
                continue
            for pk in keys:
                pkb = event_sig.b64_decode_lenient(pk)
                if pkb is not None and ed25519.verify(pkb, msg, raw):
                    return "tpi-allowed"
    raise Reject("tpi-no-valid-signature")


def check_member(version, ev, state, create):
    target = ev.get("state_key")
    c = ev["content"]
    if target is None:
        raise Reject("member-without-state-key")
    if not is_user_id(target):
        raise Reject("member-state-key-not-user-id")
    if not isinstance(c, dict) or not isinstance(c.get("membership"), str):
        raise Reject("member-without-membership")
    membership = c["membership"]
    sender = ev["sender"]
    creator = None

    def levels():
        return Levels(state.get(("m.room.power_levels", "")), creator_of(create, version), version)

    if membership == "join":
        creator = creator_of(create, version)
        prev = ev.get("prev_events") or []
        if len(prev) == 1 and prev[0] == create["event_id"] and target == creator:
            return "join-creator-first"
        if sender != target:
            raise Reject("join-sender-mismatch")
        cur = membership_of(state, target)
        if cur == "ban":
            raise Reject("join-banned")
        jr = join_rule_of(state)
        if jr == "invite" or (version >= 7 and jr == "knock"):
            if cur in ("invite", "join"):
                return "join-invited"
            # falls through to the remaining rules (restricted does not apply, not public) -> reject
        if (version >= 8 and jr == "restricted") or (version >= 10 and jr == "knock_restricted"):
            if cur in ("join", "invite"):
                return "join-restricted-member"
            via = c.get("join_authorised_via_users_server")
            if via is None:
                raise Reject("join-restricted-no-authoriser")
            if not is_user_id(via):
                raise Malformed("authoriser is not a user id")
            if membership_of(state, via) != "join":
                raise Reject("join-restricted-authoriser-not-joined")
            lv = levels()
            if lv.user(via) >= lv.scalar("invite"):
                return "join-restricted-authorised"
            raise Reject("join-restricted-authoriser-power")
        if jr == "public":
            return "join-public"
        raise Reject("join-rule-forbids")
    if membership == "invite":
        if "third_party_invite" in c and c["third_party_invite"] is not None:
            return check_tpi_invite(version, ev, state, target)
        if membership_of(state, sender) != "join":
            raise Reject("invite-sender-not-joined")
        if membership_of(state, target) in ("join", "ban"):
            raise Reject("invite-target-joined-or-banned")
        lv = levels()
        if lv.user(sender) >= lv.scalar("invite"):
            return "invite-allowed"
        raise Reject("invite-power")
    if membership == "leave":
        sm = membership_of(state, sender)
        if sender == target:
            if sm in ("invite", "join") or (version >= 7 and sm == "knock"):
                return "leave-self"
            raise Reject("leave-self-not-in-room")
        if sm != "join":
            raise Reject("kick-sender-not-joined")
        lv = levels()
        tm = membership_of(state, target)
        if tm == "ban" and lv.user(sender) < lv.scalar("ban"):
            raise Reject("unban-power")
        if lv.user(sender) >= lv.scalar("kick") and lv.user(target) < lv.user(sender):
            return "kick-allowed"
        raise Reject("kick-power")
    if membership == "ban":
        if membership_of(state, sender) != "join":
            raise Reject("ban-sender-not-joined")
        lv = levels()
        if lv.user(sender) >= lv.scalar("ban") and lv.user(target) < lv.user(sender):
            return "ban-allowed"
        raise Reject("ban-power")
    if membership == "knock" and version >= 7:
        jr = join_rule_of(state)
        if jr != "knock" and not (version >= 10 and jr == "knock_restricted"):
            raise Reject("knock-rule-forbids")
        if sender != target:
            raise Reject("knock-sender-mismatch")
        if membership_of(state, sender) not in ("ban", "invite", "join"):
            return "knock-allowed"
        raise Reject("knock-already-in-room")
    raise Reject("member-unknown-membership")


def check_power_levels(version, ev, lv, sender_level):
    c = ev["content"]
    if not isinstance(c, dict):
        raise Reject("pl-content-not-object")
    new = Levels(ev, lv.creator, version)
    try:
        new_scalars = {f: new.scalar_raw(f) for f in SCALARS}
        new_events = new.int_map("events")
        new_notifications = new.int_map("notifications")
        new_users = new.int_map("users", is_user_id)
    except Malformed:
        raise Reject("pl-new-content-malformed")
    if lv.content is None:
        return "pl-initial"
    for f in SCALARS:
        cur, nw = lv.scalar_raw(f), new_scalars[f]
        if cur == nw:
            continue
        if (DEFAULTS[f] if cur is None else cur) > sender_level or (DEFAULTS[f] if nw is None else nw) > sender_level:
            raise Reject("pl-scalar-" + f)

    def maps(cur, nw, reject_current, tag):
        cur, nw = cur or {}, nw or {}
        for k in sorted(set(cur) | set(nw)):
            a, b = cur.get(k), nw.get(k)
            if a == b:
                continue
            if a is not None and reject_current(k, a):
                raise Reject("pl-%s-current" % tag)
            if b is not None and b > sender_level:
                raise Reject("pl-%s-new" % tag)
    maps(lv.int_map("events"), new_events, lambda k, a: a > sender_level, "events")
    if version >= 6:
        maps(lv.int_map("notifications"), new_notifications, lambda k, a: a > sender_level, "notifications")
    maps(lv.int_map("users", is_user_id), new_users, lambda k, a: k != ev["sender"] and a >= sender_level, "users")
    return "pl-allowed"


def _auth(version, ev, state):
    etype = ev["type"]
    if etype == "m.room.create":
        return check_create(version, ev)
    create = state.get(("m.room.create", ""))
    if create is None:
        raise Reject("no-create-in-state")
    if create["event_id"] not in (ev.get("auth_events") or []):
        raise Reject("create-not-in-auth-events")
    cc = create["content"] if isinstance(create["content"], dict) else {}
    fed = cc.get("m.federate")
    if fed is not None and not isinstance(fed, bool):
        raise Malformed("m.federate is not a boolean")
    if fed is False and server_of(create["sender"]) != server_of(ev["sender"]):
        raise Reject("not-federated")
    sender = ev["sender"]
    if version <= 5 and etype == "m.room.aliases":
        if ev.get("state_key") != server_of(sender):
            raise Reject("aliases-state-key")
        return "aliases-allowed"
    if etype == "m.room.member":
        return check_member(version, ev, state, create)
    if membership_of(state, sender) != "join":
        raise Reject("sender-not-joined")
    lv = Levels(state.get(("m.room.power_levels", "")), creator_of(create, version), version)
    sender_level = lv.user(sender)
    if etype == "m.room.third_party_invite":
        if sender_level >= lv.scalar("invite"):
            return "tpi-event-allowed"
        raise Reject("tpi-event-power")
    if lv.for_event(etype, "state_key" in ev and ev["state_key"] is not None) > sender_level:
        raise Reject("event-power")
    sk = ev.get("state_key")
    if sk is not None and sk.startswith("@") and sk != sender:
        raise Reject("state-key-other-user")
    if etype == "m.room.power_levels":
        return check_power_levels(version, ev, lv, sender_level)
    if version <= 2 and etype == "m.room.redaction":
        if sender_level >= lv.scalar("redact"):
            return "redaction-power"
        red = ev.get("redacts")
        dom = lambda i: i.split(":", 1)[1] if isinstance(i, str) and ":" in i else None
        if dom(ev["event_id"]) == (dom(red) if red is not None else None):
            return "redaction-same-domain"
        raise Reject("redaction-rejected")
    return "allowed"


def auth_check(version, ev, state):
    try:
        return (True, _auth(version, ev, state))
    except Reject as r:
        return (False, r.rule)
    except Malformed as m:
        return (False, "malformed:" + str(m))


def auth_types(version, ev):
    """the spec's auth events selection; raises Malformed for content the selection cannot read"""
    if ev["type"] == "m.room.create":
        return set()
    out = {("m.room.create", ""), ("m.room.power_levels", ""), ("m.room.member", ev["sender"])}
    if ev["type"] == "m.room.member":
        if ev.get("state_key") is None:
            raise Malformed("member without state_key")
        out.add(("m.room.member", ev["state_key"]))
        c = ev["content"]
        if not isinstance(c, dict) or not isinstance(c.get("membership"), str):
            raise Malformed("member without membership")
        m = c["membership"]
        if m in ("join", "invite", "knock"):
            out.add(("m.room.join_rules", ""))
        if m == "invite" and c.get("third_party_invite") is not None:
            tpi = c["third_party_invite"]
            if not isinstance(tpi, dict) or not isinstance(tpi.get("signed"), dict) or \
                    not isinstance(tpi["signed"].get("token"), str):
                raise Malformed("third_party_invite without signed.token")
            out.add(("m.room.third_party_invite", tpi["signed"]["token"]))
        if m == "join" and version >= 8 and c.get("join_authorised_via_users_server") is not None:
            via = c["join_authorised_via_users_server"]
            if not is_user_id(via):
                raise Malformed("authoriser is not a user id")
            out.add(("m.room.member", via))
    return out


def selftest():
    A, B = "@alice:a.org", "@bob:b.org"
    create = {"type": "m.room.create", "state_key": "", "sender": A, "content": {"creator": A}, "event_id": "$c:a.org", "room_id": "!r:a.org"}
    mem = lambda u, m, s=None: {"type": "m.room.member", "state_key": u, "sender": s or u, "content": {"membership": m}, "event_id": "$m", "room_id": "!r:a.org"}
    st = {("m.room.create", ""): create, ("m.room.member", A): mem(A, "join"),
          ("m.room.join_rules", ""): {"type": "m.room.join_rules", "state_key": "", "sender": A, "content": {"join_rule": "public"}, "event_id": "$j"}}
    ev = dict(mem(B, "join"), auth_events=["$c:a.org"], prev_events=["$x"])
    assert auth_check(6, ev, st) == (True, "join-public")
    st2 = dict(st); st2[("m.room.member", B)] = mem(B, "ban", A)
    assert auth_check(6, ev, st2) == (False, "join-banned")
    msg = {"type": "m.room.message", "sender": B, "content": {}, "event_id": "$e", "room_id": "!r:a.org", "auth_events": ["$c:a.org"], "prev_events": ["$x"]}
    assert auth_check(6, msg, st) == (False, "sender-not-joined")
    st3 = dict(st); st3[("m.room.member", B)] = mem(B, "join")
    assert auth_check(6, msg, st3) == (True, "allowed")
    name = dict(msg, type="m.room.name", state_key="")
    assert auth_check(6, name, st3) == (False, "event-power")
    assert auth_check(6, dict(name, sender=A), st3) == (True, "allowed")
    knock = dict(mem(B, "knock"), auth_events=["$c:a.org"], prev_events=["$x"])
    assert auth_check(7, knock, st) == (False, "knock-rule-forbids")
    assert auth_check(6, knock, st) == (False, "member-unknown-membership")
    assert auth_types(8, dict(mem(B, "join"), content={"membership": "join", "join_authorised_via_users_server": A})) == \
        {("m.room.create", ""), ("m.room.power_levels", ""), ("m.room.member", B), ("m.room.join_rules", ""), ("m.room.member", A)}
    assert parse_level(" +5 ", 9) == 5 and parse_level("-3", 1) == -3
    for bad in ("5.0", "", "abc", True, 1.5, None):
        try:
            parse_level(bad, 9)
            raise AssertionError(bad)
        except Malformed:
            pass
    try:
        parse_level("5", 10)
        raise AssertionError()
    except Malformed:
        pass
    return True
