"""Generic replay: re-executes the probe commands stored in a replay file against the current
/repo tree and prints what ruma returns now next to what the monitor recorded."""
import json

from . import build
from .worker import Worker, crash_kind

API_OPS = {"endpoint_list", "request_cycle", "response_cycle", "synth_request", "synth_response", "select_path",
           "select_path_real", "auth_header", "xmatrix_parse", "xmatrix_build", "fuzz_request", "fuzz_response",
           "fuzz_error_body", "content_disposition"}


def commands_of(rp):
    if isinstance(rp, dict) and "op" in rp:
        return [rp]
    if isinstance(rp, dict):
        for k in ("ops", "commands"):
            if isinstance(rp.get(k), list):
                return [c for c in rp[k] if isinstance(c, dict) and "op" in c]
        if isinstance(rp.get("canary"), dict):
            return [c for c in rp.get("preceding", []) if isinstance(c, dict) and "op" in c] + [rp["canary"]]
    return []


def main(path):
    data = json.load(open(path))
    cmds = commands_of(data.get("replay"))
    print("replay of %s (%s): %s" % (data.get("property"), data.get("kind"), data.get("sig")))
    print("recorded detail:", json.dumps(data.get("detail"), ensure_ascii=False)[:1500])
    if not cmds:
        print("no executable commands in this replay file")
        return 2
    bad = 0
    workers = {}
    for c in cmds:
        c = dict(c)
        layer = c.pop("layer", None) or "rel"
        if layer == "miri":
            layer = "rel"
        if c.get("op") in API_OPS and not layer.endswith(":api"):
            layer = layer.split(":")[0] + ":api"
        if layer not in workers:
            build.ensure(layer, quiet=False)
            workers[layer] = Worker(layer)
        r = workers[layer].call(c, per_op_timeout=120)
        print("command:", json.dumps(c, ensure_ascii=False)[:800])
        print("  now ->", json.dumps({k: v for k, v in r.items() if k != "id"}, ensure_ascii=False)[:1500])
        if crash_kind(r) in ("panic", "died", "hang"):
            bad += 1
    for w in workers.values():
        w.close()
    if bad:
        print("VIOLATION property=%s replay=%s" % (data.get("property"), path))
        return 1
    print("re-executed %d command(s); compare 'now' with the recorded detail above" % len(cmds))
    return 0
