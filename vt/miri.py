"""Runs recorded probe commands under Miri (the undefined-behaviour / data-race interpreter).

The probe binary is interpreted by `cargo +nightly miri run` in batch mode (--in/--out); commands
are sharded over several Miri processes (one Miri process is single-threaded and ~3-4 orders of
magnitude slower than native). A Miri error (undefined behaviour, data race, leak of a borrow
tag, ...) terminates the process with a report on stderr: that is a violation. Unsupported
operations or timeouts are inconclusive, never violations."""
import json
import os
import subprocess
import time
from concurrent.futures import ThreadPoolExecutor

from .build import PROBE, TARGET, VERIF

WORK = os.path.join(VERIF, "work", "miri")


def _run_one(idx, cmds, seed, timeout):
    os.makedirs(WORK, exist_ok=True)
    inp = os.path.join(WORK, "cmds-%d.jsonl" % idx)
    outp = os.path.join(WORK, "replies-%d.jsonl" % idx)
    with open(inp, "w") as f:
        for k, c in enumerate(cmds):
            f.write(json.dumps(dict(c, id=k + 1), ensure_ascii=True) + "\n")
    if os.path.exists(outp):
        os.remove(outp)
    env = dict(os.environ, CARGO_NET_OFFLINE="true",
               MIRIFLAGS="-Zmiri-disable-isolation -Zmiri-seed=%d" % seed)
    t0 = time.time()
    try:
        p = subprocess.run(["cargo", "+nightly", "miri", "run", "--offline", "--target-dir", os.path.join(TARGET, "miri"),
                            "--bin", "probe", "--", "--in", inp, "--out", outp],
                           cwd=PROBE, env=env, stdout=subprocess.PIPE, stderr=subprocess.PIPE, timeout=timeout)
        rc, err = p.returncode, p.stderr.decode("utf-8", "replace")
    except subprocess.TimeoutExpired as e:
        rc, err = "timeout", (e.stderr or b"").decode("utf-8", "replace")
    replies = []
    if os.path.exists(outp):
        with open(outp) as f:
            for line in f:
                line = line.strip()
                if line:
                    try:
                        replies.append(json.loads(line))
                    except Exception:
                        pass
    return {"shard": idx, "rc": rc, "stderr": err, "replies": replies, "n": len(cmds), "wall_s": time.time() - t0, "seed": seed}


def run(cmds, nproc=8, seed=0, timeout=3000):
    """-> list of per-process results. Builds (first process) then interprets."""
    if not cmds:
        return []
    nproc = max(1, min(nproc, len(cmds)))
    shards = [cmds[i::nproc] for i in range(nproc)]
    # build once up front so that the parallel processes only interpret
    first = _run_one(0, shards[0][:1], seed, timeout)
    if first["rc"] not in (0,) and not first["replies"]:
        return [dict(first, build_failed=True)]
    with ThreadPoolExecutor(nproc) as ex:
        futs = [ex.submit(_run_one, i, shards[i], seed + i, timeout) for i in range(nproc)]
        return [f.result() for f in futs]


def classify(res):
    """'ok' | 'violation' (Miri reported an error) | 'inconclusive'"""
    err = res["stderr"]
    if res["rc"] == 0 and len(res["replies"]) == res["n"]:
        return "ok", ""
    if "Undefined Behavior" in err or "data race" in err.lower() or "error: unsupported operation" not in err and "error:" in err and "miri" in err.lower() and res["rc"] not in ("timeout",):
        # keep the report's first lines
        i = err.find("error:")
        return ("inconclusive", err[i:i + 600]) if "unsupported operation" in err else ("violation", err[i:i + 1500])
    return "inconclusive", (str(res["rc"]) + " " + err[-400:])


def layer(rep, cmds, seed=0, nproc=16, compare_native=True, timeout=3000):
    """Run `cmds` under Miri, feed the outcome into the report `rep`, return an evidence dict.
    Replies are also compared with the native release build's replies for the same commands
    (commands must be deterministic)."""
    from .worker import Worker, crash_kind
    t0 = time.time()
    results = run(cmds, nproc=nproc, seed=seed, timeout=timeout)
    info = {"commands": len(cmds), "processes": len(results), "interpreted": 0, "reports": 0, "inconclusive": 0,
            "native_mismatches": 0}
    if results and results[0].get("build_failed"):
        rep.inconclusive_item({"miri": "build or start failed", "stderr": results[0]["stderr"][-800:]})
        info["inconclusive"] = len(cmds)
        info["wall_s"] = round(time.time() - t0, 1)
        return info
    native = {}
    if compare_native:
        with Worker("rel") as w:
            for c, r in zip(cmds, w.call_many(cmds)):
                native[json.dumps(c, sort_keys=True)] = {k: v for k, v in r.items() if k != "id"}
    nshards = len(results)
    for res in results:
        shard_cmds = cmds[res["shard"]::nshards]
        info["interpreted"] += len(res["replies"])
        verdict, detail = classify(res)
        if verdict == "violation":
            info["reports"] += 1
            culprit = shard_cmds[len(res["replies"])] if len(res["replies"]) < len(shard_cmds) else None
            first_line = detail.splitlines()[0][:160] if detail else "miri error"
            rep.violation("miri_report", first_line, {"report": detail, "command_in_flight": culprit, "seed": res["seed"]},
                          {"layer": "miri", "seed": res["seed"], "commands": shard_cmds[:len(res["replies"]) + 1][-20:]})
        elif verdict == "inconclusive":
            info["inconclusive"] += res["n"] - len(res["replies"])
            rep.inconclusive_item({"miri": detail[:400], "shard": res["shard"]})
        for c, r in zip(shard_cmds, res["replies"]):
            rep.judged()
            rep.count("miri_commands")
            k = crash_kind(r) if ("ok" not in r and "err" not in r) else None
            if k == "panic":
                rep.violation("panic", "panic@%s:miri" % r.get("at"), r, dict(c, layer="miri"))
            if compare_native:
                want = native.get(json.dumps(c, sort_keys=True))
                got = {kk: v for kk, v in r.items() if kk != "id"}
                if want is not None and want != got and "panic" not in got:
                    info["native_mismatches"] += 1
                    rep.violation("miri_reply_differs_from_native", c.get("op", "?"), {"cmd": c, "native": want, "miri": got}, c)
    info["wall_s"] = round(time.time() - t0, 1)
    return info
