#!/usr/bin/env python3
"""Property-preserving changes (refactorings written by blind sub-agents, /verif/neutral/<Cnn>/patch.diff):
apply to /repo's working tree, run the quick tier of the named checks (default: the change's own
property), restore the tree. Every check must stay silent (exit 0).
   ./tools_neutral.py <Cnn>|--all [PROP ...]"""
import json, os, subprocess, sys, time
HERE = os.path.dirname(os.path.abspath(__file__))
REPO = "/repo"

def sh(cmd):
    return subprocess.run(cmd, shell=True, stdout=subprocess.PIPE, stderr=subprocess.STDOUT)

def one(nid, props):
    d = os.path.join(HERE, "neutral", nid)
    props = props or [nid]
    if sh("git -C %s status --porcelain --untracked-files=no" % REPO).stdout.decode().strip():
        print("refusing: /repo has uncommitted changes"); sys.exit(3)
    p = sh("git -C %s apply %s" % (REPO, os.path.join(d, "patch.diff")))
    if p.returncode:
        print(nid, "patch does not apply:", p.stdout.decode()[-300:]); return 3
    out = {}
    try:
        for prop in props:
            t0 = time.time()
            r = sh("cd %s && VERIF_EVIDENCE_DIR=%s/work/evidence-scratch VERIF_SEED=%s ./check %s --tier %s" % (
                HERE, HERE, os.environ.get("VERIF_SEED", "1"), prop, os.environ.get("VERIF_TIER", "quick")))
            txt = r.stdout.decode("utf-8", "replace")
            first = [l for l in txt.splitlines() if l.startswith("  #") or "HARNESS" in l or "Traceback" in l][:1]
            out[prop] = {"silent": r.returncode == 0, "exit": r.returncode, "s": round(time.time() - t0, 1),
                         "first": first[0][:400] if first else ""}
    finally:
        sh("git -C %s checkout -- ." % REPO)
    print(nid, json.dumps(out))
    with open(os.path.join(d, "runs.jsonl"), "a") as f:
        f.write(json.dumps({"time": time.strftime("%F %T"), "results": out}) + "\n")
    return 0 if all(v["silent"] for v in out.values()) else 1

if __name__ == "__main__":
    if sys.argv[1] == "--all":
        rc = 0
        for nid in sorted(os.listdir(os.path.join(HERE, "neutral"))):
            if os.path.exists(os.path.join(HERE, "neutral", nid, "patch.diff")):
                rc = one(nid, sys.argv[2:]) or rc
        sys.exit(rc)
    sys.exit(one(sys.argv[1], sys.argv[2:]))
