#!/usr/bin/env python3
"""Mutation probes: apply a small edit to /repo (working tree only), run the quick tier of the
named checks, restore the tree (git checkout), report whether each check fired.

  ./tools_mutant.py run <mutant-id> [...]     run mutants from mutants.json
  ./tools_mutant.py all [PROP]                run every mutant (optionally of one property)
Mutant entry: {"id":..,"props":[..],"file":..,"old":..,"new":..,"note":..}
Results are appended to mutants_results.jsonl.
"""
import json, os, subprocess, sys, time

REPO = "/repo"
HERE = os.path.dirname(os.path.abspath(__file__))


def sh(cmd, **kw):
    return subprocess.run(cmd, shell=True, stdout=subprocess.PIPE, stderr=subprocess.STDOUT, **kw)


def clean():
    st = sh("git -C %s status --porcelain --untracked-files=no" % REPO).stdout.decode().strip()
    return st == ""


def run_mutant(m, tier="quick"):
    if not clean():
        print("refusing: /repo has uncommitted changes"); sys.exit(3)
    if "revert" in m:
        # re-introduce a repaired defect: reverse-apply the fix commit to the working tree
        p = sh("git -C %s show %s | git -C %s apply -R" % (REPO, m["revert"], REPO))
        if p.returncode != 0:
            print("mutant %s: cannot reverse-apply %s: %s" % (m["id"], m["revert"], p.stdout.decode()[-300:])); return None
    else:
        path = os.path.join(REPO, m["file"])
        src = open(path).read()
        if src.count(m["old"]) != 1:
            print("mutant %s: pattern occurs %d times" % (m["id"], src.count(m["old"]))); return None
        open(path, "w").write(src.replace(m["old"], m["new"]))
    res = {}
    try:
        for prop in m["props"]:
            t0 = time.time()
            p = sh("cd %s && VERIF_EVIDENCE_DIR=%s/work/evidence-scratch VERIF_SEED=%s ./check %s --tier %s" % (HERE, HERE, os.environ.get("VERIF_SEED", "1"), prop, tier))
            out = p.stdout.decode("utf-8", "replace")
            fired = p.returncode == 1 and "VIOLATION property=%s" % prop in out
            first = [l for l in out.splitlines() if l.startswith("  #")][:1]
            res[prop] = {"fired": fired, "exit": p.returncode, "s": round(time.time() - t0, 1),
                         "first": first[0][:200] if first else out[-300:] if not fired else ""}
    finally:
        sh("git -C %s checkout -- ." % REPO)
    return res


def main():
    ms = json.load(open(os.path.join(HERE, "mutants.json")))
    byid = {m["id"]: m for m in ms}
    args = sys.argv[1:]
    if args[0] == "all":
        sel = [m for m in ms if len(args) < 2 or args[1] in m["props"]]
    else:
        sel = [byid[a] for a in args[1:]]
    for m in sel:
        r = run_mutant(m)
        print(m["id"], json.dumps(r))
        with open(os.path.join(HERE, "mutants_results.jsonl"), "a") as f:
            f.write(json.dumps({"id": m["id"], "result": r, "time": time.strftime("%F %T")}) + "\n")
    # evidence files were rewritten by mutant runs: the caller re-runs the checks on the clean tree


if __name__ == "__main__":
    main()
